(* C06 -- the log-probability columns stay attached to their own row. *)
From Coq Require Import QArith List Bool Arith Lia.
From TJ Require Import Base.XQ Base.Corr Model.Reject Proofs.RejectProofs.
Import ListNotations.

Lemma nth_repeat {A} (a d : A) n j : (j < n)%nat -> nth j (repeat a n) d = a.
Proof. revert j. induction n as [|n IH]; intros j Hj; [lia|]. destruct j; cbn; [reflexivity|apply IH; lia]. Qed.

(* row j of a table with n consecutive copies per sample belongs to sample j / n *)
Lemma nth_repeat_each {A} (d : A) n (l : list A) j :
  (0 < n)%nat -> (j < n * length l)%nat -> nth j (repeat_each n l) d = nth (j / n) l d.
Proof.
  intros Hn. revert j. induction l as [|a l IH]; intros j Hj; [cbn in Hj; lia|].
  rewrite repeat_each_cons. destruct (Nat.lt_ge_cases j n) as [Hlt|Hge].
  - rewrite app_nth1 by (rewrite repeat_length; exact Hlt).
    rewrite nth_repeat by exact Hlt. rewrite Nat.div_small by exact Hlt. reflexivity.
  - rewrite app_nth2 by (rewrite repeat_length; exact Hge). rewrite repeat_length.
    rewrite IH by (cbn [length] in Hj; lia).
    replace j with (1 * n + (j - n))%nat at 2 by lia.
    rewrite Nat.div_add_l by lia. reflexivity.
Qed.

Section Attached.
  Variables (n_linear : nat) (lls lnprior_lib : list XQ) (order : option (list nat)) (good : list nat).
  Hypothesis Hn : (0 < n_linear)%nat.
  Let full := full_idx order good.
  Let rows := out_rows n_linear full.

  Lemma full_length : length full = length good.
  Proof. subst full. unfold full_idx. destruct order; [apply map_length|reflexivity]. Qed.

  (* all three have one entry per returned row *)
  Lemma cols_lengths :
    length rows = (n_linear * length good)%nat /\
    length (ln_like_col n_linear lls good) = length rows /\
    length (ln_prior_col n_linear lnprior_lib full) = length rows.
  Proof.
    subst rows. unfold out_rows, ln_like_col, ln_prior_col.
    rewrite !repeat_each_length, !map_length, full_length. lia.
  Qed.

  (* row j: its ln_likelihood is the likelihood computed for the sample the row was made from,
     its ln_prior the library value of the library row it is a copy of *)
  Lemma row_attached j :
    (j < n_linear * length good)%nat ->
    let g := nth (j / n_linear) good O in
    nth j rows O = nth (j / n_linear) full O /\
    nth j (ln_like_col n_linear lls good) XNaN = nth g lls XNaN /\
    nth j (ln_prior_col n_linear lnprior_lib full) XNaN = nth (nth j rows O) lnprior_lib XNaN.
  Proof.
    intros Hj g. subst rows. unfold out_rows, ln_like_col, ln_prior_col.
    assert (Hq : (j / n_linear < length good)%nat) by (apply Nat.div_lt_upper_bound; lia).
    rewrite !nth_repeat_each by (rewrite ?map_length, ?full_length; assumption).
    repeat split.
    - rewrite (nth_indep _ XNaN ((fun g0 => nth g0 lls XNaN) O)) by (rewrite map_length; exact Hq).
      rewrite (map_nth (fun g0 => nth g0 lls XNaN) good O). reflexivity.
    - rewrite (nth_indep _ XNaN ((fun f => nth f lnprior_lib XNaN) O)) by (rewrite map_length, full_length; exact Hq).
      rewrite (map_nth (fun f => nth f lnprior_lib XNaN) full O). reflexivity.
  Qed.

  (* with a shuffled order the library row is order[good position]: the composition of the index spaces *)
  Lemma full_is_order_of_good k ord :
    order = Some ord -> (k < length good)%nat -> nth k full O = nth (nth k good O) ord O.
  Proof.
    intros -> Hk. subst full. unfold full_idx.
    rewrite (nth_indep _ O ((fun g => nth g ord O) O)) by (rewrite map_length; exact Hk).
    rewrite (map_nth (fun g => nth g ord O) good O). reflexivity.
  Qed.
  Lemma full_is_good_unshuffled : order = None -> full = good.
  Proof. intros ->. reflexivity. Qed.
End Attached.

(* the sample evaluated at position g IS the library row the output row is a copy of *)
Lemma eval_row_of_good order good n_prior k :
  (k < length good)%nat -> (nth k good O < n_prior)%nat ->
  nth (nth k good O) (eval_rows n_prior order) O = nth k (full_idx order good) O.
Proof.
  intros Hk Hg. unfold eval_rows, full_idx. destruct order as [ord|].
  - symmetry. rewrite (nth_indep _ O ((fun g => nth g ord O) O)) by (rewrite map_length; exact Hk).
    rewrite (map_nth (fun g => nth g ord O) good O). reflexivity.
  - rewrite seq_nth by exact Hg. reflexivity.
Qed.
