(* Level 1 -> Level 2: the loop-order sums of the generated kernel (Proofs/KernelLoops.v), read in a MathComp field, are the
   matrix expressions of Proofs/KernelAlg.v; hence what the worker returns is the Gaussian log-density with B = C_s + M Lambda M^T. *)
From mathcomp Require Import all_ssreflect all_fingroup all_algebra.
From Coq Require Import ZArith.
From TJ Require Import Base.Imp Base.Fops Gen.KernelPyx Proofs.KernelChar Proofs.KernelBridge Proofs.KernelAlg Proofs.KernelLoops Proofs.KernelPrelude.
From mathcomp.algebra_tactics Require Import ring.
Set Implicit Arguments. Unset Strict Implicit. Unset Printing Implicit Defensive.
Import GRing.Theory.
Local Open Scope ring_scope.

Lemma nat_eqbE (i j : nat) : Nat.eqb i j = (i == j).
Proof. by elim: i j => [|i IH] [|j] //=; rewrite IH. Qed.

Section Bridge2.
Variable (F : fieldType).
Variables (lg : F -> F) (pi_ : F) (pw : F -> F) (mn : F -> F -> F) (ab : F -> F) (inf : F).
Let fo := mc_fops lg pi_ pw mn ab inf.
Variables (nt nl : nat).
Variables (MT : arr2 F) (w mu La y : arr1 F).

Lemma fold_add (acc : F) n (t : nat -> F) : fold_from (fadd fo) acc n t = acc + \sum_(k < n) t k.
Proof.
elim: n => [|n IH]; first by rewrite big_ord0 addr0.
by rewrite fold_from_S IH big_ord_recr /= addrA.
Qed.
Lemma fold_sub (acc : F) n (t : nat -> F) : fold_from (fsub fo) acc n t = acc - \sum_(k < n) t k.
Proof.
elim: n => [|n IH]; first by rewrite big_ord0 subr0.
by rewrite fold_from_S IH big_ord_recr /= opprD addrA.
Qed.

Lemma fold_sub_nested (x : F) K N (t : nat -> nat -> F) :
  for_range K (fun i acc => dif_from fo acc N (t i)) x = x - \sum_(i < K) \sum_(j < N) t i j.
Proof.
elim: K => [|K IH]; first by rewrite big_ord0 subr0.
by rewrite /= IH /dif_from fold_sub big_ord_recr /= opprD addrA.
Qed.
Lemma fold_add_nested (x : F) K N (t : nat -> nat -> F) :
  for_range K (fun n acc => fold_from (fadd fo) acc N (t n)) x = x + \sum_(n < K) \sum_(m < N) t n m.
Proof.
elim: K => [|K IH]; first by rewrite big_ord0 addr0.
by rewrite /= IH fold_add big_ord_recr /= addrA.
Qed.

(* the matrices *)
Definition Mx : 'M[F]_(nt, nl) := \matrix_(n, i) MT i n.
Definition dg (k : nat) (d : arr1 F) : 'M[F]_k := \matrix_(a, b) (if a == b then d a else 0).
Definition mx2 (r c : nat) (X : arr2 F) : 'M[F]_(r, c) := \matrix_(a, b) X a b.
Definition cv (k : nat) (d : arr1 F) : 'cV[F]_k := \col_a d a.

Lemma mul_dg_l k c (d : arr1 F) (X : 'M[F]_(k, c)) a b : (dg k d *m X) a b = d a * X a b.
Proof.
rewrite !mxE (bigD1 a) //= !mxE eqxx big1 ?addr0 // => i Hi.
by rewrite !mxE eq_sym (negbTE Hi) mul0r.
Qed.
Lemma mul_dg_r k r (d : arr1 F) (X : 'M[F]_(r, k)) a b : (X *m dg k d) a b = X a b * d b.
Proof.
rewrite !mxE (bigD1 b) //= !mxE eqxx big1 ?addr0 // => i Hi.
by rewrite !mxE (negbTE Hi) mulr0.
Qed.

Lemma pAinv_mx : mx2 nl nl (pAinv fo nt MT w La) = dg nl (fun i => (La i)^-1) + Mx^T *m dg nt w *m Mx.
Proof.
apply/matrixP => i j; rewrite !mxE /pAinv /sum_from fold_add nat_eqbE /=.
congr (_ + _); first by rewrite -val_eqE; case: (_ == _) => //; rewrite div1r.
apply: eq_bigr => n _; rewrite mul_dg_r !mxE.
by ring.
Qed.

Lemma pB_mx : mx2 nt nt (pB fo nl MT w La) = dg nt (fun n => (w n)^-1) + Mx *m dg nl La *m Mx^T.
Proof.
apply/matrixP => n m; rewrite !mxE /pB /sum_from fold_add nat_eqbE /=.
congr (_ + _); first by rewrite -val_eqE; case: (_ == _) => //; rewrite div1r.
by apply: eq_bigr => i _; rewrite mul_dg_r !mxE.
Qed.

Lemma pb_mx : cv nt (pb fo nl MT mu) = Mx *m cv nl mu.
Proof.
apply/matrixP => n j; rewrite !mxE /pb /sum_from fold_add /= add0r.
by apply: eq_bigr => i _; rewrite !mxE.
Qed.

Lemma pBinv_mx (Y : arr2 F) :
  mx2 nt nt (pBinv fo nl MT w Y) = dg nt w - dg nt w *m Mx *m mx2 nl nl Y *m Mx^T *m dg nt w.
Proof.
apply/matrixP => n m; rewrite mxE [RHS]mxE [X in _ + X]mxE mul_dg_r [dg nt w n m]mxE /pBinv nat_eqbE /= fold_sub_nested.
congr (_ - _).
rewrite mxE big_distrl /= exchange_big /=. apply: eq_bigr => j _.
rewrite !mxE big_distrl /= big_distrl /=. apply: eq_bigr => i _.
by rewrite mul_dg_l !mxE.
Qed.

Lemma pa_rhs_mx :
  cv nl (pa_rhs fo nt MT w mu La y) = Mx^T *m dg nt w *m cv nt y + dg nl (fun i => (La i)^-1) *m cv nl mu.
Proof.
apply/matrixP => i j; rewrite !mxE /pa_rhs fold_add /= add0r. congr (_ + _).
- apply: eq_bigr => n _. by rewrite mul_dg_r !mxE.
- rewrite (bigD1 i) //= !mxE eqxx big1 ?addr0; first by rewrite mulrC.
  by move=> k Hk; rewrite !mxE eq_sym (negbTE Hk) mul0r.
Qed.

Lemma dg_mul k (d e : arr1 F) : dg k d *m dg k e = dg k (fun a => d a * e a).
Proof.
apply/matrixP => a b; rewrite mul_dg_l !mxE.
by case: (a == b); rewrite ?mulr0.
Qed.
Lemma dg_one k (d : arr1 F) : (forall a : 'I_k, d a = 1) -> dg k d = 1%:M.
Proof. by move=> H; apply/matrixP => a b; rewrite !mxE; case: eqP => // _; rewrite H. Qed.

Definition resid : 'cV[F]_nt := Mx *m cv nl mu - cv nt y.

Lemma pchi2_mx (Y : arr2 F) :
  pchi2 fo nt nl MT w mu y Y = (resid^T *m mx2 nt nt (pBinv fo nl MT w Y) *m resid) ord0 ord0.
Proof.
rewrite /pchi2 fold_add_nested /= add0r.
have Hr : forall k : 'I_nt, pb fo nl MT mu k - y k = resid k ord0.
  by move=> k; rewrite /resid -pb_mx !mxE.
rewrite exchange_big /= mxE. apply: eq_bigr => n _. rewrite mxE big_distrl /=. apply: eq_bigr => m _.
rewrite !Hr [mx2 _ _ _ _ _]mxE [_^T _ _]mxE. by ring.
Qed.

(* ---- the capstone: what the generated worker returns is the Gaussian log-density ---- *)
Theorem kernel_value_gaussian (Y U : arr2 F) :
  (forall n : 'I_nt, w n != 0) -> (forall i : 'I_nl, La i != 0) ->
  mx2 nl nl (pAinv fo nt MT w La) *m mx2 nl nl Y = 1%:M ->
  let B := dg nt (fun n => (w n)^-1) + Mx *m dg nl La *m Mx^T in
  let Bi := mx2 nt nt (pBinv fo nl MT w Y) in
  B *m Bi = 1%:M /\
  mx2 nt nt (pB fo nl MT w La) = B /\
  pvalue fo nt nl MT w mu y Y U = - (2%:R)^-1 * ((resid^T *m Bi *m resid) ord0 ord0 + logdet_val fo nt U).
Proof.
move=> Hw HL HY B Bi; split; [|split].
- rewrite /Bi pBinv_mx /B.
  have HC : dg nt (fun n => (w n)^-1) *m dg nt w = 1%:M.
    by rewrite dg_mul; apply: dg_one => a; rewrite mulVf.
  have HLL : dg nl La *m dg nl (fun i => (La i)^-1) = 1%:M.
    by rewrite dg_mul; apply: dg_one => a; rewrite mulfV.
  apply: (woodbury HC HLL). by rewrite -pAinv_mx.
- exact: pB_mx.
- rewrite /pvalue pchi2_mx /=. congr (_ * _). by rewrite div1r.
Qed.
End Bridge2.

(* ---- generated code + algebra: C01 for all sizes over any field ---- *)
Section Capstone.
Variable (F : fieldType).
Variables (lg : F -> F) (pi_ : F) (pw : F -> F) (mn : F -> F -> F) (ab : F -> F) (inf : F).
Let fo := mc_fops lg pi_ pw mn ab inf.
Variables (orc : oracles F) (nt nl : nat) (s0 : kst (F := F)).
Let MT := v_M_T s0. Let w := v_s_ivar s0. Let mu := v_mu s0. Let La := v_Lambda s0. Let y := v_rv s0.

(* If the per-sample state s0 holds the design matrix (transposed) M_T, the jittered inverse variances w, the prior means mu and
   variances La in design-matrix order and the velocities y, the inversion oracle returns a right inverse Y of
   Lambda^-1 + M^T C_s^-1 M and the LU oracle returns U, then the value the GENERATED worker returns is
     -1/2 ( r^T B^-1 r + sum_i ln(2 pi |U_ii|) ),   r = M mu - y,   B = C_s + M Lambda M^T,   C_s = diag(1/w),
   with B^-1 the matrix the worker itself built (a two-sided inverse of B): the Gaussian marginal, up to the LU oracle's
   log-determinant. *)
Theorem worker_is_gaussian (Y U : arr2 F) :
  o_inv orc nl (Atmp_arg fo nt nl s0) = Some Y ->
  o_lu orc nt (Btmp_arg fo nt nl s0) = Some U ->
  (forall n : 'I_nt, w n != 0) -> (forall i : 'I_nl, La i != 0) ->
  mx2 nl nl (pAinv fo nt MT w La) *m mx2 nl nl Y = 1%:M ->
  let B := dg nt (fun n => (w n)^-1) + Mx nt nl MT *m dg nl La *m (Mx nt nl MT)^T in
  let r := resid nt nl MT mu y in
  exists Bi : 'M[F]_nt,
    B *m Bi = 1%:M /\ Bi *m B = 1%:M /\
    snd (likelihood_worker fo orc (Z.of_nat nt) (Z.of_nat nl) 0%Z s0)
    = - (2%:R)^-1 * ((r^T *m Bi *m r) ord0 ord0 + logdet_val fo nt U).
Proof.
move=> HY HU Hw HL HA B r.
have [H1 [_ H3]] := kernel_value_gaussian (lg:=lg) (pi_:=pi_) (pw:=pw) (mn:=mn) (ab:=ab) (inf:=inf) mu y U Hw HL HA.
exists (mx2 nt nt (pBinv fo nl MT w Y)); split; [exact: H1|split; [exact: (mulmx1C H1)|]].
by rewrite (worker_value_marginal fo orc nt nl s0 Y U HY HU) -H3.
Qed.

(* posterior path: the vector the generated worker leaves in `a` is the conditional posterior mean
   A (Lambda^-1 mu + M^T C_s^-1 y), A the inverse of the matrix it leaves in Ainv = Lambda^-1 + M^T C_s^-1 M; the returned value
   is the marginal path's *)
Theorem worker_posterior_is_conditional (Y U : arr2 F) (x : arr1 F) :
  o_inv orc nl (Atmp_arg fo nt nl s0) = Some Y ->
  o_lu orc nt (Btmp_arg fo nt nl s0) = Some U ->
  o_solve orc nl (fun a b => if in2 nl nl a b then pAinv fo nt MT w La a b else Y a b)
              (fun a => if Nat.ltb a nl then pa_rhs fo nt MT w mu La y a else v_a s0 a) = Some x ->
  let Ainv := dg nl (fun i => (La i)^-1) + (Mx nt nl MT)^T *m dg nt w *m Mx nt nl MT in
  Ainv *m cv nl x = cv nl (pa_rhs fo nt MT w mu La y) ->     (* the solver's contract *)
  let s' := fst (likelihood_worker fo orc (Z.of_nat nt) (Z.of_nat nl) 1%Z s0) in
  mx2 nl nl (v_Ainv s') = Ainv /\
  Ainv *m cv nl (v_a s') = (Mx nt nl MT)^T *m dg nt w *m cv nt y + dg nl (fun i => (La i)^-1) *m cv nl mu /\
  snd (likelihood_worker fo orc (Z.of_nat nt) (Z.of_nat nl) 1%Z s0) = snd (likelihood_worker fo orc (Z.of_nat nt) (Z.of_nat nl) 0%Z s0).
Proof.
move=> HY HU Hx Ainv Hsolve s'.
have [H1 [H2 H3]] := worker_posterior fo orc nt nl s0 Y U x HY HU Hx.
split; [|split].
- rewrite /Ainv -(pAinv_mx lg pi_ pw mn ab inf). apply/matrixP => i j; rewrite !mxE. by apply: H3; apply/ltP.
- by rewrite /s' H2 Hsolve pa_rhs_mx.
- by rewrite H1 (worker_value_marginal fo orc nt nl s0 Y U HY HU).
Qed.
End Capstone.

(* the public entry point of one sample: k_marginal_one = prelude (K column, jitter folding, K-variance rule with its cap) + worker *)
Section Entry.
Variable (F : fieldType).
Variables (lg : F -> F) (pi_ : F) (pw : F -> F) (mn : F -> F -> F) (ab : F -> F) (inf : F).
Let fo := mc_fops lg pi_ pw mn ab inf.
Variables (orc : oracles F) (nt nl : nat).
Variables (fk : Z) (sK0 P0 mK t0 : F) (row : arr1 F).
Theorem marginal_one_is_gaussian (s : kst (F := F)) (Y U : arr2 F) :
  let s1 := prelude_state fo orc nt fk sK0 P0 mK t0 row s in
  o_inv orc nl (Atmp_arg fo nt nl s1) = Some Y ->
  o_lu orc nt (Btmp_arg fo nt nl s1) = Some U ->
  (forall n : 'I_nt, v_s_ivar s1 n != 0) -> (forall i : 'I_nl, v_Lambda s1 i != 0) ->
  mx2 nl nl (pAinv fo nt (v_M_T s1) (v_s_ivar s1) (v_Lambda s1)) *m mx2 nl nl Y = 1%:M ->
  let B := dg nt (fun n => (v_s_ivar s1 n)^-1) + Mx nt nl (v_M_T s1) *m dg nl (v_Lambda s1) *m (Mx nt nl (v_M_T s1))^T in
  let r := resid nt nl (v_M_T s1) (v_mu s1) (v_rv s1) in
  exists Bi : 'M[F]_nt,
    B *m Bi = 1%:M /\ Bi *m B = 1%:M /\
    snd (k_marginal_one fo orc (Z.of_nat nt) (Z.of_nat nl) fk sK0 P0 mK t0 row s)
    = - (2%:R)^-1 * ((r^T *m Bi *m r) ord0 ord0 + logdet_val fo nt U).
Proof.
move=> s1 HY HU Hw HL HA B r.
rewrite marginal_one_prelude.
exact: (worker_is_gaussian (s0:=s1) HY HU Hw HL HA).
Qed.
End Entry.
