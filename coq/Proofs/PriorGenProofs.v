(* JokerPrior.__init__'s two validation loops and par_names as regenerated from the source (Gen/PriorGen.v) are the model of
   Model/Validate.v, so the exact accept set proved for the model (Props/C18.v) is that of the code's own loops. *)
From Coq Require Import List Bool Arith.
From TJ Require Import Model.Validate Gen.PriorGen.
Import ListNotations.

Lemma first_err_ext {A} (f g : A -> option verr) (l : list A) : (forall x, f x = g x) -> first_err f l = first_err g l.
Proof. intros H. induction l as [|x l IH]; cbn; [reflexivity|]. rewrite H, IH. reflexivity. Qed.

Lemma required_gen poly noff : nonlinear_units_gen ++ linear_units_gen poly ++ offsets_units_gen noff = required poly noff.
Proof. reflexivity. Qed.
Lemma par_names_gen_eq poly noff : par_names_gen poly noff = par_names poly noff.
Proof. unfold par_names_gen, par_names, required. rewrite !map_app. reflexivity. Qed.
Lemma validate_prior_gen_eq decls poly noff : validate_prior_gen decls poly noff = validate_prior decls poly noff.
Proof.
  unfold validate_prior_gen, validate_prior. cbv zeta. rewrite required_gen.
  rewrite (first_err_ext _ (check_presence decls)) by reflexivity.
  destruct (first_err (check_presence decls) (required poly noff)); [reflexivity|].
  rewrite (first_err_ext _ (check_normal decls)); [reflexivity|].
  intros r. unfold check_normal, normal_family. destruct (lookup decls (fst r)) as [d|]; [|reflexivity]. destruct (d_kind d); reflexivity.
Qed.

From TJ Require Import Proofs.ValidateProofs.
(* so the generated loops accept EXACTLY the well-formed priors, and list the parameters nonlinear, linear, offsets *)
Lemma validate_prior_gen_exact decls poly noff :
  validate_prior_gen decls poly noff = VOk <->
  (forall r, In r (required poly noff) -> present_ok decls r) /\
  (forall r, In r (linear_req poly ++ offset_req noff) -> normal_ok decls r).
Proof. rewrite validate_prior_gen_eq. apply validate_prior_exact. Qed.
Lemma par_names_gen_order poly noff :
  par_names_gen poly noff = [nP; ne; nomega; nM0; ns] ++ (nK :: map nv (seq 0 poly)) ++ map ndv (seq 1 noff).
Proof. rewrite par_names_gen_eq. apply par_names_order. Qed.
