(* Completing the square (C03, C04): for every field, all dimensions (MathComp).
   p(y | x) p(x), as a function of the linear parameters x, is a Gaussian centred on a = A (Lambda^-1 mu + M^T C_s^-1 y)
   with precision A^-1 = Lambda^-1 + M^T C_s^-1 M, times a constant that is the chi^2 of the marginal likelihood. *)
From mathcomp Require Import all_ssreflect all_fingroup all_algebra.
From mathcomp.algebra_tactics Require Import ring.
Set Implicit Arguments. Unset Strict Implicit. Unset Printing Implicit Defensive.
Import GRing.Theory.
Local Open Scope ring_scope.

Section Scalar11.
Variables (F : fieldType).
Definition sc (m : 'M[F]_1) : F := m ord0 ord0.
Lemma scD a b : sc (a + b) = sc a + sc b. Proof. by rewrite /sc mxE. Qed.
Lemma scN a : sc (- a) = - sc a. Proof. by rewrite /sc mxE. Qed.
Lemma scB a b : sc (a - b) = sc a - sc b. Proof. by rewrite scD scN. Qed.
Lemma sc_inj a b : sc a = sc b -> a = b.
Proof. by move=> H; apply/matrixP=> i j; rewrite !ord1. Qed.
Lemma tr11 (m : 'M[F]_1) : m^T = m.
Proof. by apply/matrixP=> i j; rewrite mxE !ord1. Qed.
End Scalar11.
Ltac gen_atoms := repeat match goal with |- context [sc ?X] => tryif is_var X then fail else (let t := fresh "t" in move: (X) => t) end.
Ltac mx1_ring := apply: sc_inj; rewrite !(scD, scN, scB); gen_atoms; ring.
(* distribute products over sums, push transposes to the leaves, associate to the left *)
Ltac mx_expand := rewrite ?(mulmxDl, mulmxDr, mulmxBl, mulmxBr, mulNmx, mulmxN, linearD, linearB, linearN, trmx_mul, trmxK, opprD, opprB, opprK) /= ?mulmxA.

Section CompleteSquare.
Variables (F : fieldType) (n k : nat).
Variables (M : 'M[F]_(n, k)) (Ci : 'M[F]_n) (Li A : 'M[F]_k) (y : 'cV[F]_n) (mu : 'cV[F]_k).
Hypothesis HCs : Ci^T = Ci.
Hypothesis HLs : Li^T = Li.
Let Ainv := Li + M^T *m Ci *m M.
Hypothesis HA : Ainv *m A = 1%:M.
Let h := M^T *m Ci *m y + Li *m mu.
Let a := A *m h.
Let Binv := Ci - Ci *m M *m A *m M^T *m Ci.

Definition qf (m : nat) (S : 'M[F]_m) (u : 'cV[F]_m) : 'M[F]_1 := u^T *m S *m u.

Lemma Ainv_a : Ainv *m a = h.
Proof. by rewrite /a mulmxA HA mul1mx. Qed.
Lemma Ainv_sym : Ainv^T = Ainv.
Proof. by rewrite /Ainv linearD /= !trmx_mul trmxK HCs HLs mulmxA. Qed.
Lemma at_Ainv : a^T *m Ainv = h^T.
Proof. by rewrite -{1}Ainv_sym -trmx_mul Ainv_a. Qed.

(* p(y | x) p(x) as a function of the linear parameters x: a quadratic centred on a with curvature Ainv *)
Lemma complete_square_x (x : 'cV[F]_k) :
  qf Ci (y - M *m x) + qf Li (x - mu) = qf Ainv (x - a) + (qf Ci y + qf Li mu - h^T *m a).
Proof.
have E1 : qf Ainv (x - a) = x^T *m Ainv *m x - x^T *m h - h^T *m x + h^T *m a.
  have Hs : a^T *m h = h^T *m a by rewrite -[LHS]tr11 trmx_mul trmxK.
  rewrite /qf linearB /= [(x - a)^T]linearB /= !mulmxBl -![_ *m Ainv *m a]mulmxA Ainv_a at_Ainv Hs.
  mx1_ring.
rewrite E1 /qf /Ainv /h.
mx_expand. rewrite !trmx_mul ?trmxK ?HCs ?HLs ?mulmxA.
mx1_ring.
Qed.

(* ... and the constant left over is the chi^2 of the marginal likelihood *)
Lemma complete_square_const :
  qf Ci y + qf Li mu - h^T *m a = qf Binv (M *m mu - y).
Proof.
set r := M *m mu - y.
have HAA : A *m Ainv = 1%:M by apply: mulmx1C.
have Hr : M^T *m Ci *m r = Ainv *m mu - h.
  rewrite /r /Ainv /h mulmxBr mulmxDl !mulmxA.
  by rewrite [Li *m mu + _]addrC opprD addrACA subrr addr0.
have Hrt : r^T *m Ci *m M = (Ainv *m mu - h)^T.
  by rewrite -Hr !trmx_mul trmxK HCs mulmxA.
have HAw : A *m (Ainv *m mu - h) = mu - a.
  by rewrite mulmxBr mulmxA HAA mul1mx.
have E : qf Binv r = r^T *m Ci *m r - (Ainv *m mu - h)^T *m (mu - a).
  rewrite /qf /Binv [r^T *m (_ - _)]mulmxBr [(_ - _) *m r]mulmxBl; congr (_ - _).
  by rewrite !mulmxA Hrt -!mulmxA [M^T *m (Ci *m r)]mulmxA Hr HAw.
rewrite E [(_ - h)^T]linearB /= trmx_mul Ainv_sym mulmxBl !mulmxBr -[mu^T *m Ainv *m a]mulmxA Ainv_a.
rewrite /r /qf /Ainv /h.
mx_expand. rewrite ?trmx_mul ?trmxK ?HCs ?HLs ?mulmxA.
mx1_ring.
Qed.

(* together: for every x,  (y - M x)^T C_s^-1 (y - M x) + (x - mu)^T Lambda^-1 (x - mu)
                         = (x - a)^T A^-1 (x - a) + (M mu - y)^T B^-1 (M mu - y) *)
Theorem complete_square (x : 'cV[F]_k) :
  qf Ci (y - M *m x) + qf Li (x - mu) = qf Ainv (x - a) + qf Binv (M *m mu - y).
Proof. by rewrite complete_square_x complete_square_const. Qed.
End CompleteSquare.
