(* C19 -- phase_coverage: a phase occupies at most one bin and (inside [0,1)) exactly one; hence
   1/n_bins <= coverage <= min(1, n_obs/n_bins) for a non-empty observation set. *)
From Coq Require Import QArith Qround ZArith List Bool Arith Lia Lqa Permutation.
From TJ Require Import Base.Corr Base.XQ Base.ArgMax Model.Diagnostics Proofs.DiagProofs Proofs.DiagReverse.
Import ListNotations.
Open Scope Q_scope.

Lemma inv_nat_pos n : (0 < n)%nat -> 0 < / inject_Z (Z.of_nat n).
Proof. intros H. apply Qinv_lt_0_compat. change 0 with (inject_Z 0). rewrite <- Zlt_Qlt. lia. Qed.

Lemma in_bin_unique n k k' p : (0 < n)%nat -> in_bin n k p = true -> in_bin n k' p = true -> k = k'.
Proof.
  intros Hn. unfold in_bin. rewrite !andb_true_iff, !negb_true_iff. intros [H1 H2] [H3 H4].
  apply Qle_bool_iff in H1, H3. apply Qle_bool_false_lt in H2. apply Qle_bool_false_lt in H4.
  unfold Qdiv in *. pose proof (inv_nat_pos n Hn) as Hr. set (r := / inject_Z (Z.of_nat n)) in *.
  assert (A : inject_Z (Z.of_nat k) < inject_Z (Z.of_nat (S k'))) by nra.
  assert (B : inject_Z (Z.of_nat k') < inject_Z (Z.of_nat (S k))) by nra.
  rewrite <- Zlt_Qlt in A, B. lia.
Qed.

(* adding one observation occupies at most one more bin *)
Lemma occupied_cons n p ph : (occupied n (p :: ph) <= S (occupied n ph))%nat.
Proof.
  destruct n as [|n]; [cbn; lia|].
  unfold occupied. cbn [existsb].
  (* bins occupied by p :: ph are those occupied by ph plus possibly the single bin of p *)
  assert (H : forall (l : list nat), NoDup l ->
             (length (filter (fun k => in_bin (S n) k p || existsb (in_bin (S n) k) ph) l)
              <= (if existsb (fun k => in_bin (S n) k p) l then 1 else 0) + length (filter (fun k => existsb (in_bin (S n) k) ph) l))%nat).
  { induction l as [|k l IH]; intros Hnd; [cbn; lia|].
    inversion Hnd as [|x xs Hni Hnd']; subst. specialize (IH Hnd'). cbn [filter existsb].
    destruct (in_bin (S n) k p) eqn:Ek; cbn [orb].
    - (* k is p's bin: no other element of l is *)
      assert (Hl : existsb (fun k0 => in_bin (S n) k0 p) l = false).
      { apply not_true_is_false. intros Hex. apply existsb_exists in Hex. destruct Hex as (k' & Hin & Hk').
        assert (k = k') by (apply (in_bin_unique (S n) k k' p); [lia|exact Ek|exact Hk']). subst. contradiction. }
      rewrite Hl in IH. cbv iota in IH. cbv iota. destruct (existsb (in_bin (S n) k) ph); cbn [length]; lia.
    - destruct (existsb (in_bin (S n) k) ph); cbn [length]; destruct (existsb (fun k0 => in_bin (S n) k0 p) l); lia. }
  specialize (H (seq 0 (S n)) (seq_NoDup _ _)).
  destruct (existsb (fun k => in_bin (S n) k p) (seq 0 (S n))); lia.
Qed.

Lemma occupied_le_obs n ph : (occupied n ph <= length ph)%nat.
Proof.
  induction ph as [|p ph IH].
  - unfold occupied. cbn [existsb]. induction (seq 0 n) as [|k l IHl]; cbn; [lia|exact IHl].
  - pose proof (occupied_cons n p ph). cbn [length]. lia.
Qed.

(* a phase in [0,1) lies in the bin floor(p n) *)
Lemma in_its_bin n p : (0 < n)%nat -> 0 <= p -> p < 1 ->
  exists k, (k < n)%nat /\ in_bin n k p = true.
Proof.
  intros Hn H0 H1.
  set (N := inject_Z (Z.of_nat n)). assert (HN : 0 < N) by (unfold N; change 0 with (inject_Z 0); rewrite <- Zlt_Qlt; lia).
  set (z := Qfloor (p * N)).
  assert (Hz0 : (0 <= z)%Z) by (unfold z; rewrite <- (Qfloor_Z 0); apply Qfloor_resp_le; change (inject_Z 0) with 0; nra).
  assert (Hzn : (z < Z.of_nat n)%Z).
  { unfold z. pose proof (Qfloor_le (p * N)). rewrite Zlt_Qlt. fold N. nra. }
  exists (Z.to_nat z). split; [lia|].
  unfold in_bin. rewrite andb_true_iff, negb_true_iff. fold N.
  rewrite Nat2Z.inj_succ, !Z2Nat.id by lia.
  pose proof (Qfloor_le (p * N)) as L. pose proof (Qlt_floor (p * N)) as U. fold z in L, U.
  rewrite inject_Z_plus in U. change (inject_Z 1) with 1 in U. unfold Z.succ. rewrite inject_Z_plus. change (inject_Z 1) with 1.
  split.
  - apply Qle_bool_iff. apply Qle_shift_div_r; [exact HN|]. exact L.
  - destruct (Qle_bool ((inject_Z z + 1) / N) p) eqn:E; [|reflexivity].
    apply Qle_bool_iff in E. exfalso.
    assert (inject_Z z + 1 <= p * N).
    { apply (Qmult_le_r _ _ (/ N)); [apply Qinv_lt_0_compat; exact HN|].
      setoid_replace (p * N * / N) with p by (field; lra). exact E. }
    lra.
Qed.

Lemma occupied_pos n ph : (0 < n)%nat -> ph <> [] -> (forall p, In p ph -> 0 <= p /\ p < 1) -> (1 <= occupied n ph)%nat.
Proof.
  intros Hn Hne Hr. destruct ph as [|p ph]; [congruence|].
  destruct (in_its_bin n p Hn (proj1 (Hr p (or_introl eq_refl))) (proj2 (Hr p (or_introl eq_refl)))) as (k & Hk & Hin).
  unfold occupied.
  assert (Hf : In k (filter (fun k0 => existsb (in_bin n k0) (p :: ph)) (seq 0 n))).
  { apply filter_In. split; [apply in_seq; lia|]. cbn [existsb]. rewrite Hin. reflexivity. }
  destruct (filter (fun k0 => existsb (in_bin n k0) (p :: ph)) (seq 0 n)); [destruct Hf|cbn; lia].
Qed.
