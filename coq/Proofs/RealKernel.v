(* The Gaussian statements over the REAL numbers, with no algebraic premise left: the field theorems of KernelAlg /
   CompleteSquare (any MathComp field) are read at R (Base/Rstruct.v) and combined with the real-analysis facts of RealGauss
   (ln of a product, Jacobian).  gauss_ln n S Si r is ln N(r | 0, S) written with the quadratic form of Si = S^-1. *)
From Coq Require Import Reals Lra.
From mathcomp Require Import all_ssreflect all_fingroup all_algebra.
From TJ Require Import Base.Rstruct Proofs.KernelAlg Proofs.CompleteSquare Proofs.RealGauss.
Set Implicit Arguments. Unset Strict Implicit. Unset Printing Implicit Defensive.
Import GRing.Theory.
Local Open Scope ring_scope.

Definition gauss_ln (n : nat) (S Si : 'M[R]_n) (r : 'cV[R]_n) : R := lnN n (sc (r^T *m Si *m r)) (\det S).

Section RealBayes.
Variables (n k : nat).
Variables (M : 'M[R]_(n, k)) (C Ci : 'M[R]_n) (L Li A : 'M[R]_k) (y : 'cV[R]_n) (mu : 'cV[R]_k).
Hypothesis HC : C *m Ci = 1%:M.
Hypothesis HL : L *m Li = 1%:M.
Hypothesis HCs : Ci^T = Ci.
Hypothesis HLs : Li^T = Li.
Hypothesis HA : (Li + M^T *m Ci *m M) *m A = 1%:M.
Hypothesis HdC : Rlt 0 (\det C).
Hypothesis HdL : Rlt 0 (\det L).
Hypothesis HdA : Rlt 0 (\det A).

Let B := C + M *m L *m M^T.
Let Binv := Ci - Ci *m M *m A *m M^T *m Ci.
Let Ainv := Li + M^T *m Ci *m M.
Let a := A *m (M^T *m Ci *m y + Li *m mu).

Lemma detB_pos : Rlt 0 (\det B).
Proof.
have H : \det B * \det A = \det C * \det L by exact: (det_B_A HC HL HA).
have HCL : Rlt 0 (Rmult (\det C) (\det L)) by apply: Rmult_lt_0_compat.
have HBA : Rlt 0 (Rmult (\det B) (\det A)).
  have <- : \det B * \det A = Rmult (\det B) (\det A) by [].
  by rewrite H; exact: HCL.
case: (Rle_or_lt (\det B) 0) => // Hle.
have : Rle (Rmult (\det B) (\det A)) 0.
  by rewrite -(Rmult_0_l (\det A)); apply: Rmult_le_compat_r => //; apply: Rlt_le.
by move=> /Rle_not_lt.
Qed.

(* ln N(y | M mu, B) = ln N(y | M x, C_s) + ln N(x | mu, Lambda) - ln N(x | a, A)   for EVERY x *)
Theorem bayes_identity_real (x : 'cV[R]_k) :
  gauss_ln B Binv (M *m mu - y)
  = gauss_ln C Ci (y - M *m x) + gauss_ln L Li (x - mu) - gauss_ln A Ainv (x - a).
Proof.
rewrite /gauss_ln.
apply: bayes_identity => //; first exact: detB_pos.
- have H := complete_square y mu HCs HLs HA x.
  by move: (congr1 (@sc _) H); rewrite !scD.
- exact: (det_B_A HC HL HA).
Qed.
(* the conditional density of the linear parameters: p(y | x) p(x) / p(y) = N(x | a, A) *)
Theorem conditional_density_real (x : 'cV[R]_k) :
  gauss_ln A Ainv (x - a) = gauss_ln C Ci (y - M *m x) + gauss_ln L Li (x - mu) - gauss_ln B Binv (M *m mu - y).
Proof.
have H := bayes_identity_real x.
move: H. set p := gauss_ln B Binv _. set q1 := gauss_ln C Ci _. set q2 := gauss_ln L Li _. set q3 := gauss_ln A Ainv _.
by move=> ->; rewrite opprB addrC subrK.
Qed.
End RealBayes.

(* change of the velocity unit by c > 0: the value moves by exactly - n ln c *)
Section RealJacobian.
Variables (n k : nat).
Variables (M : 'M[R]_(n, k)) (C Ci : 'M[R]_n) (L A : 'M[R]_k) (r : 'cV[R]_n) (c : R).
Hypothesis Hc : Rlt 0 c.
Let B := C + M *m L *m M^T.
Let Binv := Ci - Ci *m M *m A *m M^T *m Ci.
Let B' := (c ^+ 2 *: C) + M *m (c ^+ 2 *: L) *m M^T.
Let Binv' := (c ^- 2 *: Ci) - (c ^- 2 *: Ci) *m M *m (c ^+ 2 *: A) *m M^T *m (c ^- 2 *: Ci).
Hypothesis HdB : Rlt 0 (\det B).

Theorem jacobian_real : gauss_ln B' Binv' (c *: r) = gauss_ln B Binv r - INR n * ln c.
Proof.
have Hc0 : c != 0 by apply/eqP => H; move: Hc; rewrite H; apply: Rlt_irrefl.
rewrite /gauss_ln (scale_chi2 M Ci A r Hc0) (scale_det M C L c) !RexpE.
exact: jacobian.
Qed.
End RealJacobian.

(* ---------- the generated entry point over R ---------- *)
From Coq Require Import ZArith.
From TJ Require Import Base.Imp Base.Fops Gen.KernelPyx Proofs.KernelChar Proofs.KernelBridge Proofs.KernelLoops Proofs.KernelPrelude Proofs.KernelBridge2.
Local Open Scope ring_scope.

Lemma natR (n : nat) : (n%:R : R) = INR n.
Proof. by elim: n => [|n IH] //; rewrite -addn1 natrD IH plus_INR. Qed.

Lemma ln_prod_pos (n : nat) (f : nat -> R) :
  (forall i, (i < n)%nat -> Rlt 0 (f i)) ->
  Rlt 0 (\prod_(i < n) f i) /\ ln (\prod_(i < n) f i) = \sum_(i < n) ln (f i).
Proof.
elim: n => [|n IH] Hf.
  by rewrite !big_ord0; split; [exact: Rlt_0_1 | exact: ln_1].
have [Hp Hl] := IH (fun i Hi => Hf i (ltnW Hi)).
have Hn : Rlt 0 (f n) by apply: Hf.
rewrite !big_ord_recr /=; split; first exact: Rmult_lt_0_compat.
by rewrite -Hl; apply: ln_mult.
Qed.

Section RealEntry.
Variables (pw : R -> R) (inf : R) (orc : oracles R) (nt nl : nat) (fk : Z) (sK0 P0 mK t0 : R) (row : arr1 R).
Let fo := mc_fops ln PI pw Rmin Rabs inf.

Lemma logdet_real (U : arr2 R) :
  (forall i, (i < nt)%nat -> U i i != 0) ->
  logdet_val fo nt U = INR nt * ln (Rmult (IZR 2) PI) + ln (\prod_(i < nt) Rabs (U i i)).
Proof.
move=> HU. rewrite /logdet_val /sum_from (fold_add ln PI pw Rmin Rabs inf) /= add0r.
have Hpos : forall i, (i < nt)%nat -> Rlt 0 (Rabs (U i i)).
  by move=> i Hi; apply: Rabs_pos_lt; apply/eqP; exact: HU.
have [_ ->] := ln_prod_pos Hpos.
have H2pi : Rlt 0 (Rmult (IZR 2) PI).
  by apply: Rmult_lt_0_compat; [exact: Rlt_0_2 | exact: PI_RGT_0].
have E : forall i : 'I_nt, ln ((Pos.to_nat 2)%:R * PI * Rabs (U i i)) = ln (Rmult (IZR 2) PI) + ln (Rabs (U i i)).
  by move=> i; rewrite -[RHS]ln_mult //; exact: Hpos.
rewrite (eq_bigr _ (fun i _ => E i)) big_split /= sumr_const card_ord -mulr_natl natR.
by [].
Qed.

(* C01 over the reals: the value the generated entry point returns for one sample is ln N(y | M mu, B) *)
Theorem marginal_one_real (s : kst (F := R)) (Y U : arr2 R) :
  let s1 := prelude_state fo orc nt fk sK0 P0 mK t0 row s in
  o_inv orc nl (Atmp_arg fo nt nl s1) = Some Y ->
  o_lu orc nt (Btmp_arg fo nt nl s1) = Some U ->
  (forall n : 'I_nt, v_s_ivar s1 n != 0) -> (forall i : 'I_nl, v_Lambda s1 i != 0) ->
  mx2 nl nl (pAinv fo nt (v_M_T s1) (v_s_ivar s1) (v_Lambda s1)) *m mx2 nl nl Y = 1%:M ->
  let B := dg nt (fun n => (v_s_ivar s1 n)^-1) + Mx nt nl (v_M_T s1) *m dg nl (v_Lambda s1) *m (Mx nt nl (v_M_T s1))^T in
  let r := resid nt nl (v_M_T s1) (v_mu s1) (v_rv s1) in
  (* the LU oracle's contract (LAPACK dgetrf: P B = L U, L unit lower triangular) for a positive-definite B *)
  (forall i, (i < nt)%nat -> U i i != 0) -> \prod_(i < nt) Rabs (U i i) = \det B -> Rlt 0 (\det B) ->
  exists Bi : 'M[R]_nt,
    B *m Bi = 1%:M /\ Bi *m B = 1%:M /\
    snd (k_marginal_one fo orc (Z.of_nat nt) (Z.of_nat nl) fk sK0 P0 mK t0 row s) = gauss_ln B Bi r.
Proof.
move=> s1 HY HU Hw HL HA B r HUd Hdet Hpos.
have [Bi [H1 [H2 Hv]]] := @marginal_one_is_gaussian R_fieldType ln PI pw Rmin Rabs inf orc nt nl fk sK0 P0 mK t0 row s Y U HY HU Hw HL HA.
exists Bi; split => //; split => //.
rewrite Hv (logdet_real HUd) Hdet /gauss_ln /lnN /sc.
have -> : (2%:R)^-1 = Rdiv (IZR 1) (IZR 2) :> R.
  have Htwo : (2%:R : R) != 0 by apply/eqP; rewrite natR; apply: not_0_INR.
  by rewrite (RinvE Htwo) natR /Rdiv Rmult_1_l.
by rewrite addrA.
Qed.
End RealEntry.

(* non-vacuity: the premises of bayes_identity_real are met by a concrete 1 x 1 problem (C = L = 1, M = 1, A = 1/2) *)
Example bayes_premises_ex :
  let M : 'M[R]_(1, 1) := 1%:M in let C : 'M[R]_1 := 1%:M in let L : 'M[R]_1 := 1%:M in let A : 'M[R]_1 := (2%:R^-1)%:M in
  [/\ C *m C = 1%:M, L *m L = 1%:M, C^T = C, (L + M^T *m C *m M) *m A = 1%:M & Rlt 0 (\det C) /\ Rlt 0 (\det L) /\ Rlt 0 (\det A)].
Proof.
have Htwo : (2%:R : R) != 0 by apply/eqP; rewrite natR; apply: not_0_INR.
split; rewrite ?mulmx1 ?trmx1 ?mul1mx //.
- by rewrite -raddfD /= -scalar_mxM -[1 + 1]/(2%:R) mulfV.
- rewrite !det1 det_scalar1 (RinvE Htwo) natR; split; [exact: Rlt_0_1 | split; [exact: Rlt_0_1 | apply: Rinv_0_lt_compat; rewrite /=; lra]].
Qed.
