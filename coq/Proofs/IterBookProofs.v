(* C14 -- the block bookkeeping of the iterative samplers as generated from the source (Gen/IterBook.v): whatever the growth
   estimate returns and whatever the rule accepts, the rounds evaluate CONTIGUOUS, NON-EMPTY, NON-OVERLAPPING blocks of the
   evaluation order, starting at position 0 and never reaching past the limit (library size / max_prior_samples): no position is
   evaluated twice, and never more than the budget. *)
From Coq Require Import ZArith List Bool Lia.
From TJ Require Import Gen.IterBook.
Import ListNotations. Open Scope Z_scope.

(* blocks [lo, hi): each starts where its predecessor ends, none is empty, all end at or below `limit` *)
Fixpoint contiguous (lo limit : Z) (bs : list (Z * Z)) : Prop :=
  match bs with
  | [] => True
  | (a, b) :: r => a = lo /\ a < b /\ b <= limit /\ contiguous b limit r
  end.

Section Run.
Variable growth : Z -> Z -> Z -> Z.
Variable next : Z -> Z -> Z -> Z -> Z -> Z -> it_next.       (* <site>_next growth *)
Variable block : Z -> Z -> Z * Z.
Hypothesis block_def : forall s n, block s n = (s, s + n).
(* what the generated `next` guarantees (proved for both sites below) *)
Hypothesis next_spec : forall n_req limit s n e g s' n',
  next n_req limit s n e g = ItContinue s' n' -> s' = s + n /\ 0 < n' /\ (s + n <= limit -> s' + n' <= limit).

(* the blocks evaluated by at most `fuel` rounds, given the number of accepted samples observed after each round *)
Fixpoint blocks (fuel : nat) (n_req limit start n_process : Z) (goods : list Z) : list (Z * Z) :=
  match fuel, goods with
  | S f, g :: gs =>
      block start n_process ::
      match next n_req limit start n_process (start + n_process) g with
      | ItStop => []
      | ItContinue s' n' => blocks f n_req limit s' n' gs
      end
  | _, _ => []
  end.

Lemma blocks_contiguous fuel : forall n_req limit start n_process goods,
  0 < n_process -> start + n_process <= limit ->
  contiguous start limit (blocks fuel n_req limit start n_process goods).
Proof.
  induction fuel as [|f IH]; intros n_req limit start n_process goods Hn Hl; [exact I|].
  destruct goods as [|g gs]; [exact I|]. cbn [blocks]. rewrite block_def. cbn [contiguous].
  split; [reflexivity|]. split; [lia|]. split; [exact Hl|].
  destruct (next n_req limit start n_process (start + n_process) g) as [|s' n'] eqn:E; [exact I|].
  destruct (next_spec _ _ _ _ _ _ _ _ E) as (Hs & Hn' & Hl'). subst s'. apply IH; [exact Hn'|apply Hl', Hl].
Qed.
End Run.

(* consequences of contiguity: disjointness and the budget *)
Lemma contiguous_bounds lo limit bs : contiguous lo limit bs -> forall a b, In (a, b) bs -> lo <= a /\ a < b /\ b <= limit.
Proof.
  revert lo. induction bs as [|[a0 b0] r IH]; intros lo H a b Hin; [destruct Hin|].
  cbn [contiguous] in H. destruct H as (-> & Hab & Hb & Hr). destruct Hin as [E|Hin].
  - injection E as <- <-. lia.
  - destruct (IH b0 Hr a b Hin) as (H1 & H2 & H3). lia.
Qed.
Lemma contiguous_disjoint lo limit bs1 a b bs2 c d bs3 :
  contiguous lo limit (bs1 ++ (a, b) :: bs2 ++ (c, d) :: bs3) -> b <= c.
Proof.
  revert lo. induction bs1 as [|[a0 b0] r IH]; intros lo H.
  - cbn [app contiguous] in H. destruct H as (_ & _ & _ & Hr).
    assert (In (c, d) (bs2 ++ (c, d) :: bs3)) by (apply in_or_app; right; left; reflexivity).
    destruct (contiguous_bounds b limit _ Hr c d H) as (H1 & _). exact H1.
  - cbn [app contiguous] in H. destruct H as (_ & _ & _ & Hr). exact (IH b0 Hr).
Qed.

(* ---- the two generated sites meet the specification of `next`, for every growth oracle ---- *)
Lemma inmem_next_spec growth n_req limit s n e g s' n' :
  inmem_next growth n_req limit s n e g = ItContinue s' n' -> s' = s + n /\ 0 < n' /\ (s + n <= limit -> s' + n' <= limit).
Proof.
  unfold inmem_next. destruct (n_req <=? g); [discriminate|]. cbv zeta.
  destruct (limit <? s + n + growth (n_req - g) g e) eqn:E1.
  - destruct (limit - (s + n) <=? 0) eqn:E2; [discriminate|]. intros H. injection H as <- <-. lia.
  - destruct (growth (n_req - g) g e <=? 0) eqn:E2; [discriminate|]. intros H. injection H as <- <-. lia.
Qed.
Lemma file_next_spec growth n_req limit s n e g s' n' :
  file_next growth n_req limit s n e g = ItContinue s' n' -> s' = s + n /\ 0 < n' /\ (s + n <= limit -> s' + n' <= limit).
Proof.
  unfold file_next. destruct (n_req <=? g); [discriminate|]. cbv zeta.
  destruct (limit <? s + n + growth (n_req - g) g e) eqn:E1.
  - destruct (limit - (s + n) <=? 0) eqn:E2; [discriminate|]. intros H. injection H as <- <-. lia.
  - destruct (growth (n_req - g) g e <=? 0) eqn:E2; [discriminate|]. intros H. injection H as <- <-. lia.
Qed.

(* a call that passed the size check starts with a block inside the limit *)
Lemma first_block_ok first limit : inmem_too_small first limit = false -> file_too_small first limit = false -> first <= limit.
Proof. unfold inmem_too_small. intros H _. lia. Qed.

Theorem inmem_blocks_contiguous growth fuel n_req limit first goods :
  0 < first -> inmem_too_small first limit = false ->
  contiguous 0 limit (blocks (inmem_next growth) inmem_block fuel n_req limit 0 first goods).
Proof.
  intros H0 Hs. apply (blocks_contiguous (inmem_next growth) inmem_block); [reflexivity|apply inmem_next_spec|exact H0|].
  unfold inmem_too_small in Hs. lia.
Qed.
Theorem file_blocks_contiguous growth fuel n_req limit first goods :
  0 < first -> file_too_small first limit = false ->
  contiguous 0 limit (blocks (file_next growth) file_block fuel n_req limit 0 first goods).
Proof.
  intros H0 Hs. apply (blocks_contiguous (file_next growth) file_block); [reflexivity|apply file_next_spec|exact H0|].
  unfold file_too_small in Hs. lia.
Qed.
