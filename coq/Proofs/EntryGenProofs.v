(* The routing of TheJoker's entry points as regenerated from the source (Gen/EntryGen.v). *)
From Coq Require Import List Bool Arith Lia.
From TJ Require Import Gen.EntryGen.
Import ListNotations.

Lemma firstn_combine {A B} (m : nat) : forall (a : list A) (b : list B),
  firstn m (combine a b) = combine (firstn m a) (firstn m b).
Proof. induction m as [|m IH]; intros [|x a] [|y b]; cbn; try reflexivity. f_equal. apply IH. Qed.

(* the in-memory iterative sampler cuts the library and its ln_prior column at the same row: after the cut, row i is still paired
   with its own ln_prior, and the rows are the first max_prior_samples rows of the library, in order *)
Lemma it_inmem_truncate_pairs {A B} (rows : list A) (lnp : list B) (mx : option nat) :
  let '(rows', lnp') := it_inmem_truncate rows (Some lnp) mx in
  exists l, lnp' = Some l /\
    combine rows' l = match mx with None => combine rows lnp | Some m => firstn m (combine rows lnp) end.
Proof.
  destruct mx as [m|]; cbn.
  - exists (firstn m lnp). split; [reflexivity|]. symmetry. apply firstn_combine.
  - exists lnp. split; reflexivity.
Qed.
Lemma it_inmem_truncate_rows {A B} (rows : list A) (lnp : option (list B)) (mx : option nat) :
  fst (it_inmem_truncate rows lnp mx) = match mx with None => rows | Some m => firstn m rows end.
Proof. destruct mx; reflexivity. Qed.
Lemma it_inmem_truncate_flag {A B} (rows : list A) (mx : option nat) :
  snd (it_inmem_truncate (B := B) rows None mx) = None.
Proof. destruct mx; reflexivity. Qed.
Lemma firstn_nth {A} (d : A) m i (l : list A) : i < m -> nth i (firstn m l) d = nth i l d.
Proof.
  revert i l. induction m as [|m IH]; intros i l Hi; [lia|].
  destruct l as [|x l]; [destruct i; reflexivity|]. destruct i as [|i]; [reflexivity|]. cbn. apply IH. lia.
Qed.

(* in memory, with return_logprobs, a JokerSamples library's own ln_prior column is what is handed on (and a count is first turned
   into samples drawn with return_logprobs, so the same holds for it); a packed array has no ln_prior to hand on *)
Lemma inmem_lnprior_spec a rl :
  inmem_lnprior (rs_prior_arg a) rl =
  match a with
  | PaSamples | PaCount => if rl then LpOwnColumn else LpNone
  | PaArray | PaFile => LpFlag rl
  end.
Proof. destruct a; reflexivity. Qed.
Lemma entry_routing in_memory :
  entry_helper in_memory = (if in_memory then HInMem else HFile) /\ entry_rng = GenOwn /\ entry_pool = PoolOwn.
Proof. repeat split. Qed.
