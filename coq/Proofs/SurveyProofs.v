(* C08 -- proofs about the multi-survey merge model and its certificate. *)
From Coq Require Import QArith ZArith List Bool Arith Lia Permutation Sorted.
From TJ Require Import Base.XQ Base.Corr Model.RVData Proofs.RVDataProofs Model.Surveys.
Import ListNotations.

Lemma lobs_eqb_eq a b : lobs_eqb a b = true -> a = b.
Proof.
  destruct a, b. unfold lobs_eqb. cbn. rewrite andb_true_iff, Nat.eqb_eq. intros [H ->].
  apply obs_eqb_eq in H. subst. reflexivity.
Qed.

Lemma gather_seq_gen {A} (d : A) (pre l : list A) :
  map (fun i => nth i (pre ++ l) d) (seq (length pre) (length l)) = l.
Proof.
  revert pre. induction l as [|a l IH]; intros pre; [reflexivity|]. cbn [length seq map].
  rewrite app_nth2 by lia. rewrite Nat.sub_diag. cbn [nth]. f_equal.
  specialize (IH (pre ++ [a])). rewrite app_length, <- app_assoc in IH. cbn in IH.
  replace (length pre + 1)%nat with (S (length pre)) in IH by lia. exact IH.
Qed.
Lemma gather_seq {A} (d : A) (l : list A) : gather d (seq 0 (length l)) l = l.
Proof. exact (gather_seq_gen d [] l). Qed.

(* ---- the certificate ---- *)
Lemma merge_check_sound srcs pi out cm :
  merge_check srcs pi out cm = true ->
  Permutation out (concat_sources srcs) /\ sorted_l out = true /\
  cm = const_matrix (map l_id out) /\ out = gather lobs_d pi (concat_sources srcs).
Proof.
  unfold merge_check. rewrite !andb_true_iff. intros [[[H1 H2] H3] H4].
  apply enumerates_perm in H1. apply (list_eqb_eq lobs_eqb lobs_eqb_eq) in H2.
  apply (list_eqb_eq _ (list_eqb_eq q_ideqb q_ideqb_eq)) in H4.
  subst out. repeat split; try assumption; try congruence.
  rewrite <- (gather_seq lobs_d (concat_sources srcs)) at 2.
  unfold gather. apply Permutation_map. exact H1.
Qed.

(* membership in the concatenation = membership in the source carrying that label *)
Lemma in_concat_sources srcs x :
  In x (concat_sources srcs) <-> exists s, In s srcs /\ l_id x = fst s /\ In (l_obs x) (snd s).
Proof.
  unfold concat_sources. rewrite in_concat. split.
  - intros (l & Hl & Hx). apply in_map_iff in Hl. destruct Hl as (s & <- & Hs).
    unfold tag_source in Hx. apply in_map_iff in Hx. destruct Hx as (o & <- & Ho).
    exists s. cbn. auto.
  - intros (s & Hs & Hid & Ho). exists (tag_source s). split; [apply in_map, Hs|].
    unfold tag_source. apply in_map_iff. exists (l_obs x). split; [|exact Ho].
    destruct x as [o k]. cbn in *. subst. reflexivity.
Qed.

(* every merged row is an input observation still carrying the label of the source it came from, and nothing is lost *)
Lemma merged_rows_keep_their_survey srcs pi out cm x :
  merge_check srcs pi out cm = true ->
  (In x out <-> exists s, In s srcs /\ l_id x = fst s /\ In (l_obs x) (snd s)).
Proof.
  intros H. apply merge_check_sound in H. destruct H as (Hp & _).
  rewrite <- in_concat_sources. split; intros Hin.
  - apply (Permutation_in _ Hp), Hin.
  - apply (Permutation_in _ (Permutation_sym Hp)), Hin.
Qed.

(* ---- the executable merge meets the same specification ---- *)
Lemma linsert_perm o l : Permutation (linsert o l) (o :: l).
Proof.
  induction l as [|h r IH]; cbn; [reflexivity|].
  destruct (xq_leb _ _); [reflexivity|]. rewrite IH. apply perm_swap.
Qed.
Lemma lsort_perm l : Permutation (lsort l) l.
Proof. induction l as [|a l IH]; cbn; [reflexivity|]. rewrite linsert_perm. constructor. exact IH. Qed.
Lemma linsert_sorted o l : sorted_l l = true -> sorted_l (linsert o l) = true.
Proof.
  induction l as [|h r IH]; cbn [linsert]; [reflexivity|]. intros Hs.
  destruct (xq_leb (o_t (l_obs o)) (o_t (l_obs h))) eqn:E.
  - cbn [sorted_l]. rewrite E. exact Hs.
  - apply xq_leb_total in E. cbn [sorted_l] in Hs. destruct r as [|b r'].
    + cbn. rewrite E. reflexivity.
    + apply andb_true_iff in Hs. destruct Hs as [Hhb Hr]. specialize (IH Hr).
      cbn [linsert] in *. destruct (xq_leb (o_t (l_obs o)) (o_t (l_obs b))) eqn:E2.
      * cbn [sorted_l]. rewrite E. cbn [sorted_l] in IH. rewrite IH. reflexivity.
      * cbn [sorted_l]. rewrite Hhb. cbn [sorted_l] in IH. rewrite IH. reflexivity.
Qed.
Lemma lsort_sorted l : sorted_l (lsort l) = true.
Proof. induction l as [|a l IH]; cbn; [reflexivity|]. apply linsert_sorted, IH. Qed.

Lemma merge_model_spec srcs :
  Permutation (merge srcs) (concat_sources srcs) /\ sorted_l (merge srcs) = true.
Proof. split; [apply lsort_perm|apply lsort_sorted]. Qed.

(* ---- numpy.unique ---- *)
Lemma ninsert_in x l y : In y (ninsert x l) <-> y = x \/ In y l.
Proof.
  induction l as [|h r IH]; cbn [ninsert In].
  - intuition (subst; auto).
  - destruct (Nat.ltb x h) eqn:E1; cbn [In].
    + intuition (subst; auto).
    + destruct (Nat.eqb x h) eqn:E2; cbn [In].
      * apply Nat.eqb_eq in E2. subst. intuition (subst; auto).
      * rewrite IH. intuition (subst; auto).
Qed.
Lemma unique_ids_in l y : In y (unique_ids l) <-> In y l.
Proof. induction l as [|a l IH]; cbn; [tauto|]. rewrite ninsert_in, IH. intuition. Qed.

Lemma ninsert_sorted x l : StronglySorted lt l -> StronglySorted lt (ninsert x l).
Proof.
  induction l as [|h r IH]; cbn [ninsert]; intros Hs; [repeat constructor|].
  inversion Hs as [|? ? Hr Hall]; subst.
  destruct (Nat.ltb x h) eqn:E1.
  - apply Nat.ltb_lt in E1. constructor; [exact Hs|]. constructor; [exact E1|].
    rewrite Forall_forall in *. intros y Hy. specialize (Hall y Hy). lia.
  - destruct (Nat.eqb x h) eqn:E2; [exact Hs|].
    apply Nat.ltb_ge in E1. apply Nat.eqb_neq in E2.
    constructor; [apply IH, Hr|]. rewrite Forall_forall in *. intros y Hy.
    apply ninsert_in in Hy. destruct Hy as [->|Hy]; [lia|apply Hall, Hy].
Qed.
Lemma unique_ids_sorted l : StronglySorted lt (unique_ids l).
Proof. induction l as [|a l IH]; cbn; [constructor|]. apply ninsert_sorted, IH. Qed.

Lemma sorted_lt_NoDup l : StronglySorted lt l -> NoDup l.
Proof.
  induction 1 as [|a l Hs IH Hall]; constructor; [|exact IH].
  intros Hin. rewrite Forall_forall in Hall. specialize (Hall a Hin). lia.
Qed.

Lemma sorted_lt_unique l1 : forall l2,
  StronglySorted lt l1 -> StronglySorted lt l2 -> (forall x, In x l1 <-> In x l2) -> l1 = l2.
Proof.
  induction l1 as [|a r1 IH]; intros l2 H1 H2 Heq.
  - destruct l2 as [|b r2]; [reflexivity|]. exfalso. apply (Heq b). left. reflexivity.
  - destruct l2 as [|b r2]; [exfalso; apply (Heq a); left; reflexivity|].
    inversion H1 as [|? ? Hr1 Hall1]; inversion H2 as [|? ? Hr2 Hall2]; subst.
    rewrite Forall_forall in Hall1, Hall2.
    assert (a = b).
    { assert (Ha : In a (b :: r2)) by (apply Heq; left; reflexivity).
      assert (Hb : In b (a :: r1)) by (apply Heq; left; reflexivity).
      destruct Ha as [->|Ha]; [reflexivity|]. destruct Hb as [->|Hb]; [reflexivity|].
      specialize (Hall1 b Hb). specialize (Hall2 a Ha). lia. }
    subst b. f_equal. apply IH; try assumption.
    intros x. split; intros Hx.
    + assert (Hin : In x (a :: r2)) by (apply Heq; right; exact Hx).
      destruct Hin as [->|Hin]; [|exact Hin]. specialize (Hall1 x Hx). lia.
    + assert (Hin : In x (a :: r1)) by (apply Heq; right; exact Hx).
      destruct Hin as [->|Hin]; [|exact Hin]. specialize (Hall2 x Hx). lia.
Qed.

(* list input: labels are exactly 0..m  =>  unique labels are 0,1,..,m in this order:
   the first source is the reference, the k-th further source owns column k *)
Lemma seq_sorted a n : StronglySorted lt (seq a n).
Proof.
  revert a. induction n as [|n IH]; intros a; cbn; constructor; [apply IH|].
  rewrite Forall_forall. intros x Hx. apply in_seq in Hx. lia.
Qed.
Lemma unique_ids_list_input ids m :
  (forall k, In k ids <-> (k <= m)%nat) -> unique_ids ids = seq 0 (S m).
Proof.
  intros H. apply sorted_lt_unique; [apply unique_ids_sorted|apply seq_sorted|].
  intros x. rewrite unique_ids_in, H, in_seq. lia.
Qed.

(* ---- indicator columns ---- *)
Lemma const_row_col0 uniq id : nth 0 (const_row uniq id) 0%Q = 1%Q.
Proof. reflexivity. Qed.

Lemma const_row_colj uniq id j :
  (1 <= j < length uniq)%nat ->
  nth j (const_row uniq id) 0%Q = if Nat.eqb id (nth j uniq O) then 1%Q else 0%Q.
Proof.
  intros Hj. unfold const_row. destruct j as [|j]; [lia|]. cbn [nth].
  destruct uniq as [|u0 us]; [cbn in Hj; lia|]. cbn [tl nth]. cbn [length] in Hj.
  rewrite (nth_indep _ 0%Q ((fun u => if Nat.eqb id u then 1%Q else 0%Q) O)) by (rewrite map_length; lia).
  rewrite (map_nth (fun u => if Nat.eqb id u then 1%Q else 0%Q) us O j). reflexivity.
Qed.

Lemma const_row_length uniq id : length (const_row uniq id) = Nat.max 1 (length uniq).
Proof. unfold const_row. cbn [length]. rewrite map_length. destruct uniq; cbn; lia. Qed.

(* a row of the reference survey (smallest key) has no offset column set; any other row has exactly its own *)
Lemma const_row_reference uniq j :
  StronglySorted lt uniq -> (1 <= j < length uniq)%nat ->
  nth j (const_row uniq (nth 0 uniq O)) 0%Q = 0%Q.
Proof.
  intros Hs Hj. rewrite const_row_colj by exact Hj.
  destruct (Nat.eqb (nth 0 uniq O) (nth j uniq O)) eqn:E; [|reflexivity]. exfalso.
  apply Nat.eqb_eq in E. apply sorted_lt_NoDup in Hs.
  rewrite NoDup_nth in Hs. specialize (Hs O j ltac:(lia) ltac:(lia) E). lia.
Qed.
Lemma const_row_own_column uniq j k :
  StronglySorted lt uniq -> (1 <= j < length uniq)%nat -> (1 <= k < length uniq)%nat ->
  nth j (const_row uniq (nth k uniq O)) 0%Q = if Nat.eqb j k then 1%Q else 0%Q.
Proof.
  intros Hs Hj Hk. rewrite const_row_colj by exact Hj.
  destruct (Nat.eqb j k) eqn:Ejk.
  - apply Nat.eqb_eq in Ejk. subst. rewrite Nat.eqb_refl. reflexivity.
  - destruct (Nat.eqb (nth k uniq O) (nth j uniq O)) eqn:E; [|reflexivity]. exfalso.
    apply Nat.eqb_eq in E. apply sorted_lt_NoDup in Hs. rewrite NoDup_nth in Hs.
    specialize (Hs k j ltac:(lia) ltac:(lia) E). apply Nat.eqb_neq in Ejk. lia.
Qed.
