From Coq Require Import Reals Lra.
From TJ Require Import Model.Mcmc.
Open Scope R_scope.

(* the orbit object's internal bookkeeping (t0, tref, its own reference anomaly) cancels: the mean anomaly is the sampler's *)
Theorem mcmc_mean_anomaly P M0 M0i x : P <> 0 -> mc_mean_anomaly P M0 M0i x = kernel_mean_anomaly P M0 x.
Proof.
  intros HP. unfold mc_mean_anomaly, kernel_mean_anomaly, mc_tref, mc_t0, mc_t_peri, mc_n.
  pose proof PI_neq0. field. split; assumption.
Qed.

(* and so the Keplerian term is the kernel's: cos(w + f) + e cos w, written out *)
Theorem mcmc_rv_eq_kernel (true_anom : R -> R -> R) P e om M0 M0i K x :
  P <> 0 -> mc_rv_kepler true_anom P e om M0 M0i K x = kernel_rv_kepler true_anom P e om M0 K x.
Proof.
  intros HP. unfold mc_rv_kepler, kernel_rv_kepler. rewrite mcmc_mean_anomaly by exact HP. cbv zeta. rewrite cos_plus. reflexivity.
Qed.

(* the stored ln_prior is the prior part of the log-density exactly when the stored ln_likelihood is the data term the
   log-density contains *)
Theorem stored_ln_prior_is_prior logp_prior data_term lnlike :
  stored_ln_prior (logp_prior + data_term) lnlike = logp_prior <-> lnlike = data_term.
Proof. unfold stored_ln_prior. split; intros H; lra. Qed.

(* jitter enters the data term as added variance *)
Theorem gauss_term_jitter y rv sigma s : gauss_term y rv (sigma ^ 2 + s ^ 2) = gauss_term y rv (sqrt (sigma ^ 2 + s ^ 2) ^ 2).
Proof.
  unfold gauss_term.
  assert (H : sqrt (sigma ^ 2 + s ^ 2) ^ 2 = sigma ^ 2 + s ^ 2).
  { replace (sqrt (sigma ^ 2 + s ^ 2) ^ 2) with (sqrt (sigma ^ 2 + s ^ 2) * sqrt (sigma ^ 2 + s ^ 2)) by ring.
    apply sqrt_sqrt. nra. }
  rewrite H. reflexivity.
Qed.
