(* C14 -- proofs about the iterative-sampling model. *)
From Coq Require Import QArith ZArith List Bool Arith Lia Sorted.
From TJ Require Import Base.XQ Base.Corr Base.RealEnc Model.Reject Model.Iterative Proofs.RejectProofs.
Import ListNotations.

Section Iter.
  Variable dec : Q -> Q -> option bool.
  Variables (inmem : bool) (prof : list XQ) (n_req budget : nat) (early_ok : bool).

  (* whatever the batch sizes were: a normal return evaluated no more than the budget, returns at most the
     request, exactly the request when enough samples passed, and every returned position passed the rule
     against ALL likelihoods evaluated so far with the draws of the last iteration *)
  Lemma it_loop_ok : forall fuel c steps good ev,
    it_loop dec inmem prof n_req budget early_ok fuel c steps = ItOk good ev ->
    (c <= ev)%nat /\ (ev <= budget)%nat /\
    exists us acc, accept_idx dec (firstn ev prof) us = Some acc /\ good = firstn n_req acc /\
                   (length good <= n_req)%nat /\
                   ((n_req <= length acc)%nat -> length good = n_req) /\
                   ((length acc < n_req)%nat -> ((budget <= ev)%nat \/ early_ok = true) /\ good = acc) /\
                   (inmem = true -> forallb xfinite (firstn ev prof) = true).
  Proof.
    induction fuel as [|fuel IH]; intros c steps good ev H; cbn [it_loop] in H; [discriminate|].
    destruct steps as [|[size us] rest]; [discriminate|].
    destruct (Nat.ltb budget (c + size)) eqn:Eb; [discriminate|]. apply Nat.ltb_ge in Eb.
    destruct (inmem && negb (forallb xfinite (firstn (c + size) prof))) eqn:Enf; [discriminate|].
    destruct (Nat.eqb (c + size) 0) eqn:E0; [discriminate|].
    destruct (negb (Nat.eqb (length us) (c + size))) eqn:Elen; [discriminate|].
    destruct (accept_idx dec (firstn (c + size) prof) us) as [acc|] eqn:Eacc; [|discriminate].
    destruct acc as [|a acc']; [discriminate|].
    set (acc := a :: acc') in *.
    assert (Hfin : inmem = true -> forallb xfinite (firstn (c + size) prof) = true).
    { intros ->. cbn in Enf. apply negb_false_iff in Enf. exact Enf. }
    destruct (Nat.leb n_req (length acc)) eqn:Ereq.
    - apply Nat.leb_le in Ereq. destruct rest; [|discriminate]. injection H as <- <-.
      split; [lia|]. split; [exact Eb|]. exists us, acc.
      split; [exact Eacc|]. split; [reflexivity|].
      split; [rewrite firstn_length; lia|].
      split; [intros _; rewrite firstn_length; lia|].
      split; [intros Hlt; lia|exact Hfin].
    - apply Nat.leb_gt in Ereq. destruct (Nat.leb budget (c + size)) eqn:Ebud.
      + apply Nat.leb_le in Ebud. destruct rest; [|discriminate]. injection H as <- <-.
        split; [lia|]. split; [exact Eb|]. exists us, acc.
        split; [exact Eacc|]. split; [reflexivity|].
        split; [rewrite firstn_length; lia|].
        split; [intros Hge; lia|].
        split; [intros _; split; [left; exact Ebud|apply firstn_all2; lia]|exact Hfin].
      + destruct rest as [|[size' us'] rest'].
        { destruct early_ok eqn:Eearly; [|discriminate]. injection H as <- <-.
          split; [lia|]. split; [exact Eb|]. exists us, acc.
          split; [exact Eacc|]. split; [reflexivity|].
          split; [rewrite firstn_length; lia|].
          split; [intros Hge; lia|].
          split; [intros _; split; [right; reflexivity|apply firstn_all2; lia]|exact Hfin]. }
        destruct (Nat.eqb size' 0); [discriminate|].
        apply IH in H. destruct H as (Hc & Hev & Hex). split; [lia|]. split; [exact Hev|exact Hex].
  Qed.

  (* fuel exhaustion never looks like a result *)
  Lemma it_loop_fuel0 c steps : it_loop dec inmem prof n_req budget early_ok 0 c steps = ItRaise ErrMaxIter.
  Proof. reflexivity. Qed.

  Lemma it_run_too_small maxiter first steps :
    (budget < first)%nat -> it_run dec inmem prof n_req budget early_ok maxiter first steps = ItRaise ErrTooSmall.
  Proof. intros H. unfold it_run. apply Nat.ltb_lt in H. rewrite H. reflexivity. Qed.

  Lemma it_run_ok maxiter first steps good ev :
    it_run dec inmem prof n_req budget early_ok maxiter first steps = ItOk good ev ->
    (first <= budget)%nat /\ (ev <= budget)%nat /\
    exists us acc, accept_idx dec (firstn ev prof) us = Some acc /\ good = firstn n_req acc /\
                   (length good <= n_req)%nat /\
                   ((n_req <= length acc)%nat -> length good = n_req) /\
                   ((length acc < n_req)%nat -> ((budget <= ev)%nat \/ early_ok = true) /\ good = acc) /\
                   (inmem = true -> forallb xfinite (firstn ev prof) = true).
  Proof.
    unfold it_run. destruct (Nat.ltb budget first) eqn:E; [discriminate|]. apply Nat.ltb_ge in E.
    destruct steps as [|[size us] rest]; [discriminate|].
    destruct (Nat.eqb size (Nat.min first budget)); [|discriminate].
    intros H. apply it_loop_ok in H. destruct H as (_ & Hev & Hex). auto.
  Qed.
End Iter.

(* evaluated rows are a prefix of the evaluation order: with distinct entries no library row is evaluated twice *)
Lemma firstn_NoDup {A} n (l : list A) : NoDup l -> NoDup (firstn n l).
Proof.
  revert n. induction l as [|a l IH]; intros n Hnd; destruct n; cbn; try constructor.
  - inversion Hnd; subst. intros Hin. apply in_firstn in Hin. contradiction.
  - inversion Hnd; subst. apply IH. assumption.
Qed.
Lemma seq_NoDup' a n : NoDup (seq a n).
Proof. apply seq_NoDup. Qed.
