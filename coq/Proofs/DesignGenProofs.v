(* C08 / C04 -- the design-matrix builders as generated from the source (Gen/DesignGen.v) are the models:
   the constant part is Model/Surveys.v's const_matrix (column 0 all ones, column j the indicator of the j-th smallest label),
   and a full row is the constant row followed by dt, dt^2, .. with dt = t - t_ref (Model/RVCurve.v powers_from). *)
From Coq Require Import QArith List Arith.
From TJ Require Import Model.Surveys Model.RVCurve Gen.DesignGen.
Import ListNotations.

Lemma skipn1_tl {A} (l : list A) : skipn 1 l = tl l.
Proof. destruct l; reflexivity. Qed.

Lemma const_matrix_gen_eq ids : const_matrix_gen ids = const_matrix ids.
Proof. unfold const_matrix_gen, const_matrix, const_row. cbv zeta. rewrite skipn1_tl. reflexivity. Qed.

Lemma vander_tail dt poly : skipn 1 (map (qpow dt) (seq 0 poly)) = powers_from dt 1 (poly - 1).
Proof.
  unfold powers_from. destruct poly as [|p]; [reflexivity|].
  cbn [seq map skipn]. rewrite Nat.sub_succ, Nat.sub_0_r. reflexivity.
Qed.

Lemma rows_combine (u : list nat) (f : Q -> list Q) ids : forall ts,
  map (fun cr : list Q * Q => fst cr ++ f (snd cr)) (combine (map (const_row u) ids) ts)
  = map (fun it : nat * Q => const_row u (fst it) ++ f (snd it)) (combine ids ts).
Proof.
  induction ids as [|i ids IH]; intros ts; [reflexivity|]. destruct ts as [|t ts]; [reflexivity|].
  cbn [map combine fst snd]. f_equal. apply IH.
Qed.

(* every row of trend_M: the constant row of the observation's label, then dt, dt^2, .., dt^(poly_trend - 1) *)
Lemma trend_matrix_gen_rows ids ts t_ref poly :
  trend_matrix_gen ids ts t_ref poly
  = map (fun it => const_row (unique_ids ids) (fst it) ++ powers_from (snd it - t_ref) 1 (poly - 1)) (combine ids ts).
Proof.
  unfold trend_matrix_gen. rewrite const_matrix_gen_eq. unfold const_matrix. cbv zeta.
  rewrite (rows_combine (unique_ids ids) (fun t => skipn 1 (map (qpow (t - t_ref)) (seq 0 poly))) ids ts).
  apply map_ext. intros it. rewrite vander_tail. reflexivity.
Qed.
