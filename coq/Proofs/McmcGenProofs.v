(* setup_mcmc and KeplerianOrbit as regenerated from the source (Gen/McmcGen.v) against the reading of Model/Mcmc.v and the
   sampler's own conventions. *)
From Coq Require Import Reals List Lra.
From TJ Require Import Model.Mcmc Proofs.McmcProofs Gen.McmcGen.
Import ListNotations.
Open Scope R_scope.

Lemma mean_anomaly_gen_model P M0 M0i x :
  orbit_mean_anomaly_gen P (t_peri_gen P M0) M0i x = mc_mean_anomaly P M0 M0i x.
Proof. reflexivity. Qed.
(* the orbit of the MCMC model counts the mean anomaly exactly as the sampler does: 2 pi x / P - M0, whatever internal reference
   anomaly KeplerianOrbit uses *)
Lemma mean_anomaly_gen_kernel P M0 M0i x : P <> 0 ->
  orbit_mean_anomaly_gen P (t_peri_gen P M0) M0i x = kernel_mean_anomaly P M0 x.
Proof. intros HP. rewrite mean_anomaly_gen_model. apply mcmc_mean_anomaly. exact HP. Qed.

Lemma model_rv_gen_kernel (true_anom : R -> R -> R) P e om M0 M0i K x row vpars : P <> 0 ->
  model_rv_gen true_anom P e om M0 M0i K x row vpars
  = kernel_rv_kepler true_anom P e om M0 K x + fold_right Rplus 0 (map (fun p => fst p * snd p) (combine row vpars)).
Proof.
  intros HP. unfold model_rv_gen. f_equal.
  change (orbit_rv_gen true_anom P e om (t_peri_gen P M0) M0i K x) with (mc_rv_kepler true_anom P e om M0 M0i K x).
  apply mcmc_rv_eq_kernel. exact HP.
Qed.

(* the velocity parameters are stacked in the column order of the design matrix: v0, the offsets, then v1, v2, .. *)
Lemma vpars_gen_order {A} (v0 : A) (vrest offsets : list A) : vpars_gen (v0 :: vrest) offsets = v0 :: offsets ++ vrest.
Proof. reflexivity. Qed.

(* the observation term is the Gaussian data term with the jitter-inflated variance err^2 + s^2 *)
Lemma obs_term_gen_gauss y rv err s : obs_term_gen y rv err s = gauss_term y rv (err ^ 2 + s ^ 2).
Proof. unfold obs_term_gen, obs_sigma_gen. symmetry. apply gauss_term_jitter. Qed.

Lemma stored_ln_prior_gen_eq logp lnlike : stored_ln_prior_gen logp lnlike = stored_ln_prior logp lnlike.
Proof. reflexivity. Qed.
