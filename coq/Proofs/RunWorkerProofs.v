(* C16 -- run_worker as generated from the source (Gen/RunWorkerGen.v) is the hand model of Model/BatchSpec.v on top of the
   generated batch_tasks.  Kept apart from BatchProofs.v so that an untranslatable run_worker breaks only Props/C16g.v. *)
From Coq Require Import ZArith List Bool Lia.
From TJ Require Import Base.Imp Gen.BatchTasksGen Model.BatchSpec Proofs.BatchProofs.
Import ListNotations. Open Scope Z_scope.
From TJ Require Import Gen.RunWorkerGen.
Lemma rw_gen_counts file_rows n_prior idx_len n_batches pool_size :
  rw_n_samples_gen file_rows n_prior idx_len
    = (match n_prior, idx_len with Some _, Some _ => None | _, _ => Some (rw_n_samples file_rows n_prior idx_len) end)
  /\ rw_n_batches_gen n_batches pool_size = rw_n_batches n_batches pool_size.
Proof. split; [destruct n_prior, idx_len; reflexivity|destruct n_batches; reflexivity]. Qed.

Lemma rw_gen_chain file_rows n_prior idx_len n_batches pool_size ts :
  rw_tasks_gen file_rows n_prior idx_len n_batches pool_size = Some ts ->
  1 <= rw_n_samples file_rows n_prior idx_len -> 1 <= rw_n_batches n_batches pool_size ->
  chain 0 (rw_n_samples file_rows n_prior idx_len) ts /\
  Forall (fun t => t_is_idx t = match idx_len with None => true | Some _ => false end) ts.
Proof.
  unfold rw_tasks_gen. destruct (rw_gen_counts file_rows n_prior idx_len n_batches pool_size) as [E1 E2]. rewrite E1, E2.
  intros H Hn Hb.
  assert (Hts : ts = batch_tasks_gen (rw_n_samples file_rows n_prior idx_len) (rw_n_batches n_batches pool_size) 0
                       (match idx_len with None => true | Some _ => false end)).
  { destruct n_prior, idx_len; try discriminate; injection H as <-; reflexivity. }
  subst ts. split.
  - pose proof (bt_chain (rw_n_samples file_rows n_prior idx_len) (rw_n_batches n_batches pool_size) 0
                         (match idx_len with None => true | Some _ => false end) Hb Hn) as Hc.
    rewrite Z.add_0_l in Hc. exact Hc.
  - exact (bt_kind (rw_n_samples file_rows n_prior idx_len) (rw_n_batches n_batches pool_size) 0
                   (match idx_len with None => true | Some _ => false end) Hb Hn).
Qed.
