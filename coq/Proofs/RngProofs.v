(* C10 -- stream separation: children never share a key, the parent stream is read in disjoint segments. *)
From Coq Require Import List Arith Bool Lia.
From TJ Require Import Model.Rng.
Import ListNotations.

Lemma NoDup_app' {A} (a b : list A) :
  NoDup a -> NoDup b -> (forall y, In y a -> In y b -> False) -> NoDup (a ++ b).
Proof.
  induction a as [|h t IH]; intros Ha Hb Hd; cbn; [exact Hb|].
  inversion Ha as [|? ? Hnin Ht]; subst. constructor.
  - intros Hin. apply in_app_or in Hin. destruct Hin as [Hin|Hin]; [contradiction|].
    apply (Hd h); [left; reflexivity|exact Hin].
  - apply IH; try assumption. intros y Hy1 Hy2. apply (Hd y); [right; exact Hy1|exact Hy2].
Qed.

Lemma run_calls_bounds cs : forall g g' ds ks,
  run_calls cs g = (g', ds, ks) ->
  (pos g <= pos g')%nat /\ (spawned g <= spawned g')%nat /\
  Forall (fun d => (pos g <= d < pos g')%nat) ds /\ Forall (fun k => (spawned g <= k < spawned g')%nat) ks /\
  NoDup ds /\ NoDup ks.
Proof.
  induction cs as [|c r IH]; intros g g' ds ks H; cbn [run_calls] in H.
  - injection H as <- <- <-. repeat split; try lia; constructor.
  - destruct (do_call c g) as [[g1 d1] k1] eqn:E1.
    destruct (run_calls r g1) as [[g2 d2] k2] eqn:E2. injection H as <- <- <-.
    destruct (IH _ _ _ _ E2) as (Hp & Hs & Hd & Hk & Nd & Nk).
    assert (H1 : (pos g <= pos g1)%nat /\ (spawned g <= spawned g1)%nat /\
                 Forall (fun d => (pos g <= d < pos g1)%nat) d1 /\ Forall (fun k => (spawned g <= k < spawned g1)%nat) k1 /\
                 NoDup d1 /\ NoDup k1).
    { destruct c as [n|k]; cbn in E1; injection E1 as <- <- <-; cbn [pos spawned].
      - split; [lia|]. split; [lia|]. split.
        + rewrite Forall_forall. intros y Hy. apply in_seq in Hy. lia.
        + split; [constructor|]. split; [apply seq_NoDup|constructor].
      - split; [lia|]. split; [lia|]. split; [constructor|]. split.
        + rewrite Forall_forall. intros y Hy. apply in_seq in Hy. lia.
        + split; [constructor|apply seq_NoDup]. }
    destruct H1 as (Hp1 & Hs1 & Hd1 & Hk1 & Nd1 & Nk1).
    rewrite Forall_forall in *.
    split; [lia|]. split; [lia|]. split; [|split; [|split]].
    + intros z Hz. apply in_app_or in Hz. destruct Hz as [Hz|Hz].
      * pose proof (Hd1 z Hz) as Hq. lia.
      * pose proof (Hd z Hz) as Hq. lia.
    + rewrite ?Forall_forall in *. intros z Hz. apply in_app_or in Hz. destruct Hz as [Hz|Hz].
      * pose proof (Hk1 z Hz) as Hq. lia.
      * pose proof (Hk z Hz) as Hq. lia.
    + rewrite ?Forall_forall in *. apply NoDup_app'; try assumption. intros z Hz Hz'. specialize (Hd1 z Hz). specialize (Hd z Hz'). lia.
    + rewrite ?Forall_forall in *. apply NoDup_app'; try assumption. intros z Hz Hz'. specialize (Hk1 z Hz). specialize (Hk z Hz'). lia.
Qed.
