(* C01 + C05 together, over the reals: the values the cache-file path returns for a library, for every batch count, every pool
   of configuration-equal helper copies and EVERY schedule, are the Gaussian log-densities ln N(y | M mu, B_row) of its rows. *)
From Coq Require Import Reals.
From mathcomp Require Import all_ssreflect all_fingroup all_algebra.
From Coq Require Import ZArith List.
From TJ Require Import Base.Rstruct Base.Imp Base.Fops Gen.KernelPyx Gen.BatchTasksGen Model.BatchSpec Model.Sched
  Proofs.KernelChar Proofs.KernelBridge Proofs.KernelLoops Proofs.KernelPrelude Proofs.KernelBridge2 Proofs.RealGauss Proofs.RealKernel
  Proofs.SchedProofs Proofs.KernelSched.
Set Implicit Arguments. Unset Strict Implicit. Unset Printing Implicit Defensive.
Import GRing.Theory.
Local Open Scope ring_scope.

Section RealSched.
Variables (pw : R -> R) (inf : R) (orc : oracles R) (nt nl : nat) (fk : Z) (sK0 P0 mK t0 : R).
Let fo := mc_fops ln PI pw Rmin Rabs inf.
Notation st := (kst (F := R)).

(* the per-sample state and Gaussian of a row, as set up by the generated prelude on the helper w0 *)
Definition s_of (w0 : st) (row : arr1 R) : st := prelude_state fo orc nt fk sK0 P0 mK t0 row w0.
Definition B_of (w0 : st) (row : arr1 R) : 'M[R]_nt :=
  dg nt (fun n => (v_s_ivar (s_of w0 row) n)^-1) + Mx nt nl (v_M_T (s_of w0 row)) *m dg nl (v_Lambda (s_of w0 row)) *m (Mx nt nl (v_M_T (s_of w0 row)))^T.
Definition r_of (w0 : st) (row : arr1 R) : 'cV[R]_nt := resid nt nl (v_M_T (s_of w0 row)) (v_mu (s_of w0 row)) (v_rv (s_of w0 row)).

(* the oracle contracts for one row (C01_real_value's premises) *)
Definition row_ok (w0 : st) (row : arr1 R) : Prop :=
  exists Y U : arr2 R,
    [/\ o_inv orc nl (Atmp_arg fo nt nl (s_of w0 row)) = Some Y, o_lu orc nt (Btmp_arg fo nt nl (s_of w0 row)) = Some U,
        (forall n : 'I_nt, v_s_ivar (s_of w0 row) n != 0) /\ (forall i : 'I_nl, v_Lambda (s_of w0 row) i != 0),
        mx2 nl nl (pAinv fo nt (v_M_T (s_of w0 row)) (v_s_ivar (s_of w0 row)) (v_Lambda (s_of w0 row))) *m mx2 nl nl Y = 1%:M
      & (forall i, (i < nt)%nat -> U i i != 0) /\ \prod_(i < nt) Rabs (U i i) = \det (B_of w0 row) /\ Rlt 0 (\det (B_of w0 row))].

Definition is_gauss (w0 : st) (row : arr1 R) (v : R) : Prop :=
  exists Bi : 'M[R]_nt, B_of w0 row *m Bi = 1%:M /\ Bi *m B_of w0 row = 1%:M /\ v = gauss_ln (B_of w0 row) Bi (r_of w0 row).

Lemma value_is_gauss w0 row : row_ok w0 row -> is_gauss w0 row (value fo orc nt nl fk sK0 P0 mK t0 w0 row).
Proof.
move=> [Y [U [HY HU [Hw HL] HA [HUd [Hdet Hpos]]]]].
have [Bi [H1 [H2 Hv]]] := @marginal_one_real pw inf orc nt nl fk sK0 P0 mK t0 row w0 Y U HY HU Hw HL HA HUd Hdet Hpos.
by exists Bi; split => //; split.
Qed.

Theorem file_path_real_every_schedule (w0 : st) (rows : list (arr1 R)) (n_batches : Z) (ws : list st) (sch : list (nat * nat)) :
  let batches := map (task_rows rows) (batch_tasks_gen (Z.of_nat (length rows)) n_batches 0 true) in
  (forall row s, exists Y U, o_inv orc nl (Atmp_arg fo nt nl (pre fo orc nt fk sK0 P0 mK t0 row s)) = Some Y /\
                             o_lu orc nt (Btmp_arg fo nt nl (pre fo orc nt fk sK0 P0 mK t0 row s)) = Some U) ->
  oracles_local orc ->
  rows <> nil -> (1 <= n_batches)%Z -> Forall (cfg_eq nt fk w0) ws -> complete (length batches) (length ws) sch ->
  (forall row, In row rows -> row_ok w0 row) ->
  exists vals : list R,
    pool_map st (list (arr1 R)) (list R) (step_batch fo orc nt nl fk sK0 P0 mK t0) batches ws sch
      = map (fun b => Some (map (value fo orc nt nl fk sK0 P0 mK t0 w0) b)) batches /\
    concat (map (map (value fo orc nt nl fk sK0 P0 mK t0 w0)) batches) = vals /\
    Forall2 (is_gauss w0) rows vals.
Proof.
move=> batches Hok Hloc Hne Hnb HE Hc Hrows.
have [H1 H2] := @file_path_every_schedule R fo orc nt nl fk sK0 P0 mK t0 Hok Hloc w0 rows n_batches ws sch Hne Hnb HE Hc.
exists (map (value fo orc nt nl fk sK0 P0 mK t0 w0) rows); split => //; split => //.
elim: rows Hrows {Hne H1 H2 batches Hc} => [|row rows IH] Hrows; first by constructor.
constructor; first by apply: value_is_gauss; apply: Hrows; left.
by apply: IH => r Hr; apply: Hrows; right.
Qed.
End RealSched.
