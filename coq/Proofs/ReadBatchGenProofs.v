(* The column-wise reads of utils.read_batch_slice / read_batch_idx, regenerated from the source (Gen/ReadBatchGen.v), return
   exactly the rows of the row model of Model/Store.v (read_slice / read_idx followed by convert_row). *)
From Coq Require Import QArith List Arith Lia.
From TJ Require Import Base.XQ Model.Store Model.NpStore Gen.ReadBatchGen.
Import ListNotations.

Lemma pick_cols_cell t cols i : pick_cols (t_hdr t) cols (nth i (t_rows t) []) = map (fun c => cell t c i) cols.
Proof. reflexivity. Qed.

Lemma map_seq_nth {A B} (F : A -> B) (d : A) (l : list A) :
  map (fun k => F (nth k l d)) (seq 0 (length l)) = map F l.
Proof.
  induction l as [|x l IH] using rev_ind; [reflexivity|].
  rewrite app_length, Nat.add_1_r, seq_S, !map_app. cbn [map Nat.add]. f_equal.
  - rewrite <- IH. apply map_ext_in. intros k Hk. apply in_seq in Hk. rewrite app_nth1 by lia. reflexivity.
  - rewrite nth_middle. reflexivity.
Qed.

Lemma combine_map_r {A B C} (g : B -> C) (l : list A) (r : list B) :
  combine l (map g r) = map (fun p => (fst p, g (snd p))) (combine l r).
Proof. revert r; induction l as [|a l IH]; intros [|b r]; cbn; try reflexivity. f_equal. apply IH. Qed.

(* columns, scaled, then read row by row = for every selected row, its requested cells, scaled *)
Lemma columns_to_rows (g : nat -> nat -> XQ) (fs : list Q) (cols idx : list nat) :
  np_from_columns (length idx) (np_scale_columns fs (map (fun c => map (g c) idx) cols))
  = map (fun i => map (fun p => xq_scale (fst p) (snd p)) (combine fs (map (fun c => g c i) cols))) idx.
Proof.
  unfold np_from_columns, np_scale_columns.
  rewrite <- (map_seq_nth (fun i => map (fun p => xq_scale (fst p) (snd p)) (combine fs (map (fun c => g c i) cols))) 0%nat idx).
  apply map_ext_in. intros k Hk. apply in_seq in Hk.
  rewrite !combine_map_r, !map_map. apply map_ext. intros [f c]. cbn [fst snd].
  rewrite (nth_indep _ XNaN (xq_scale f (g c 0%nat))) by (rewrite !map_length; lia).
  rewrite (map_nth (xq_scale f)). f_equal.
  apply (map_nth (g c)).
Qed.

Lemma read_batch_idx_gen_eq t cols idx fs :
  read_batch_idx_gen t cols idx fs = map (convert_row fs) (read_idx t cols idx).
Proof.
  unfold read_batch_idx_gen, read_idx, rows_at. cbv zeta. unfold tb_read_coordinates.
  rewrite (columns_to_rows (cell t) fs cols idx), map_map. apply map_ext. intros i.
  unfold convert_row. rewrite pick_cols_cell. reflexivity.
Qed.

Lemma read_batch_slice_gen_eq t cols lo hi step fs :
  read_batch_slice_gen t cols lo hi step fs = map (convert_row fs) (read_slice t cols lo hi step).
Proof.
  unfold read_batch_slice_gen, read_slice, rows_at. cbv zeta. unfold tb_read.
  rewrite (columns_to_rows (cell t) fs cols), map_map. apply map_ext. intros i.
  unfold convert_row. rewrite pick_cols_cell. reflexivity.
Qed.

(* the dispatcher: a tuple or slice reads that range; an array reads those rows in the given order; an int reads the rows the
   generator chose; anything else raises *)
Lemma read_batch_gen_spec choice t cols a fs :
  read_batch_gen choice t cols a fs =
  match a with
  | RbTuple lo hi step | RbSlice lo hi step => Some (map (convert_row fs) (read_slice t cols lo hi step))
  | RbInt size => Some (map (convert_row fs) (read_idx t cols (choice (length (t_rows t)) size)))
  | RbArray idx => Some (map (convert_row fs) (read_idx t cols idx))
  | RbOther => None
  end.
Proof.
  destruct a; cbn [read_batch_gen]; unfold read_random_batch_gen; cbv zeta;
    rewrite ?read_batch_slice_gen_eq, ?read_batch_idx_gen_eq; reflexivity.
Qed.

(* length and order: row j of the result is built from table row idx[j] *)
Lemma read_batch_idx_gen_nth t cols idx fs j : (j < length idx)%nat ->
  nth j (read_batch_idx_gen t cols idx fs) [] = convert_row fs (pick_cols (t_hdr t) cols (nth (nth j idx 0%nat) (t_rows t) [])).
Proof.
  intros Hj. rewrite read_batch_idx_gen_eq. unfold read_idx, rows_at. rewrite map_map.
  rewrite (nth_indep _ [] ((fun i => convert_row fs (pick_cols (t_hdr t) cols (nth i (t_rows t) []))) 0%nat)) by (rewrite map_length; lia).
  apply (map_nth (fun i => convert_row fs (pick_cols (t_hdr t) cols (nth i (t_rows t) [])))).
Qed.
Lemma read_batch_idx_gen_length t cols idx fs : length (read_batch_idx_gen t cols idx fs) = length idx.
Proof. rewrite read_batch_idx_gen_eq. unfold read_idx, rows_at. rewrite !map_length. reflexivity. Qed.
