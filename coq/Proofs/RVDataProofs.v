(* C15 -- proofs about the RVData model and about what the witness-based certificate implies. *)
From Coq Require Import QArith ZArith List Bool Arith Lia Permutation.
From TJ Require Import Base.XQ Base.Corr Model.RVData.
Import ListNotations.

(* ---- value identity is Leibniz equality ---- *)
Lemma q_ideqb_eq a b : q_ideqb a b = true -> a = b.
Proof.
  destruct a as [n d], b as [n' d']. unfold q_ideqb. cbn.
  rewrite andb_true_iff, Z.eqb_eq, Pos.eqb_eq. intros [-> ->]. reflexivity.
Qed.
Lemma x_ideqb_eq x y : x_ideqb x y = true -> x = y.
Proof. destruct x, y; cbn; try discriminate; try reflexivity. intros H. f_equal. apply q_ideqb_eq, H. Qed.
Lemma obs_eqb_eq a b : obs_eqb a b = true -> a = b.
Proof.
  destruct a, b. unfold obs_eqb. cbn. rewrite !andb_true_iff. intros [[H1 H2] H3].
  apply x_ideqb_eq in H1, H2, H3. subst. reflexivity.
Qed.
Lemma list_eqb_eq {A} (e : A -> A -> bool) :
  (forall a b, e a b = true -> a = b) -> forall x y, Corr.list_eqb e x y = true -> x = y.
Proof.
  intros He. induction x as [|a x IH]; destruct y as [|b y]; cbn; try discriminate; [reflexivity|].
  rewrite andb_true_iff. intros [H1 H2]. f_equal; [apply He, H1|apply IH, H2].
Qed.

(* ---- index bookkeeping ---- *)
Lemma existsb_eqb_In a l : existsb (Nat.eqb a) l = true <-> In a l.
Proof.
  rewrite existsb_exists. split.
  - intros (x & Hx & E). apply Nat.eqb_eq in E. subst. exact Hx.
  - intros H. exists a. split; [exact H|apply Nat.eqb_refl].
Qed.
Lemma nodupb_NoDup l : nodupb l = true -> NoDup l.
Proof.
  induction l as [|a r IH]; cbn; [constructor|].
  rewrite andb_true_iff, negb_true_iff. intros [H1 H2]. constructor; [|apply IH, H2].
  intros Hin. apply existsb_eqb_In in Hin. congruence.
Qed.
Lemma inclb_incl l ks : inclb l ks = true -> incl l ks.
Proof.
  unfold inclb. rewrite forallb_forall. intros H a Ha. apply existsb_eqb_In, H, Ha.
Qed.
Lemma enumerates_perm pi ks : enumerates pi ks = true -> Permutation pi ks.
Proof.
  unfold enumerates. rewrite !andb_true_iff, Nat.eqb_eq. intros [[H1 H2] H3].
  apply NoDup_Permutation_bis; [apply nodupb_NoDup, H1|lia|apply inclb_incl, H2].
Qed.

Lemma kept_from_filter {A} (f : A -> bool) (d : A) (pre l : list A) :
  map (fun i => nth i (pre ++ l) d) (kept_from (length pre) (map f l)) = filter f l.
Proof.
  revert pre. induction l as [|a l IH]; intros pre; cbn; [reflexivity|].
  specialize (IH (pre ++ [a])). rewrite app_length, <- app_assoc in IH. cbn in IH.
  replace (length pre + 1)%nat with (S (length pre)) in IH by lia.
  destruct (f a); cbn; rewrite IH; [|reflexivity].
  f_equal. rewrite app_nth2 by lia. rewrite Nat.sub_diag. reflexivity.
Qed.
Lemma kept_filter {A} (f : A -> bool) (d : A) (l : list A) :
  gather d (kept (map f l)) l = filter f l.
Proof. exact (kept_from_filter f d [] l). Qed.

(* gathering parallel lists by one index list = gathering the list of pairs *)
Lemma gather_zip {A B} (da : A) (db : B) pi (a : list A) (b : list B) :
  length a = length b ->
  gather (da, db) pi (combine a b) = combine (gather da pi a) (gather db pi b).
Proof.
  intros Hl. unfold gather. induction pi as [|i pi IH]; cbn; [reflexivity|].
  rewrite IH. f_equal. apply combine_nth, Hl.
Qed.

(* ---- what an accepted certificate means ---- *)
Definition keep (clean : bool) (o : obs) : bool := negb clean || obs_finite o.

Lemma init_check_sound clean input pi out :
  init_check clean input pi out = true ->
  Permutation out (filter (keep clean) input) /\ sorted_t out = true /\
  out = gather obs_d pi input /\ Permutation pi (kept (fin_mask clean input)).
Proof.
  unfold init_check. rewrite !andb_true_iff. intros [[H1 H2] H3].
  apply enumerates_perm in H1. apply (list_eqb_eq obs_eqb obs_eqb_eq) in H2. subst out.
  repeat split; try assumption.
  rewrite <- (kept_filter (keep clean) obs_d input).
  unfold gather. apply Permutation_map. exact H1.
Qed.

(* ---- the executable model meets the same specification ---- *)
Lemma insert_t_perm o l : Permutation (insert_t o l) (o :: l).
Proof.
  induction l as [|h r IH]; cbn; [reflexivity|].
  destruct (xq_leb (o_t o) (o_t h)); [reflexivity|].
  rewrite IH. apply perm_swap.
Qed.
Lemma sort_t_perm l : Permutation (sort_t l) l.
Proof.
  induction l as [|a l IH]; cbn; [reflexivity|]. rewrite insert_t_perm. constructor. exact IH.
Qed.
Lemma insert_t_sorted o l : sorted_t l = true -> sorted_t (insert_t o l) = true.
Proof.
  induction l as [|h r IH]; cbn [insert_t]; [reflexivity|]. intros Hs.
  destruct (xq_leb (o_t o) (o_t h)) eqn:E.
  - cbn [sorted_t]. rewrite E. exact Hs.
  - apply xq_leb_total in E. cbn [sorted_t] in Hs. destruct r as [|b r'].
    + cbn. rewrite E. reflexivity.
    + apply andb_true_iff in Hs. destruct Hs as [Hhb Hr]. specialize (IH Hr).
      cbn [insert_t] in *. destruct (xq_leb (o_t o) (o_t b)) eqn:E2.
      * cbn [sorted_t]. rewrite E. cbn [sorted_t] in IH. rewrite IH. reflexivity.
      * cbn [sorted_t]. rewrite Hhb. cbn [sorted_t] in IH. rewrite IH. reflexivity.
Qed.
Lemma sort_t_sorted l : sorted_t (sort_t l) = true.
Proof. induction l as [|a l IH]; cbn; [reflexivity|]. apply insert_t_sorted, IH. Qed.

Lemma model_meets_spec clean l :
  Permutation (rvdata_init clean l) (filter (keep clean) l) /\ sorted_t (rvdata_init clean l) = true.
Proof.
  unfold rvdata_init. split; [|apply sort_t_sorted].
  rewrite sort_t_perm. destruct clean; unfold keep; cbn [negb orb]; [reflexivity|].
  induction l as [|a l IH]; cbn; [reflexivity|]. constructor. exact IH.
Qed.

(* implementation output (accepted certificate) and model output hold the same observations *)
Lemma impl_perm_model clean input pi out :
  init_check clean input pi out = true -> Permutation out (rvdata_init clean input).
Proof.
  intros H. apply init_check_sound in H. destruct H as (H & _).
  rewrite H. symmetry. apply model_meets_spec.
Qed.

(* clean=true output contains only finite observations, and every finite input observation *)
Lemma clean_only_finite input pi out o :
  init_check true input pi out = true -> (In o out <-> In o input /\ obs_finite o = true).
Proof.
  intros H. apply init_check_sound in H. destruct H as (H & _).
  split.
  - intros Hin. apply (Permutation_in _ H) in Hin. apply filter_In in Hin. exact Hin.
  - intros Hin. apply (Permutation_in _ (Permutation_sym H)). apply filter_In. exact Hin.
Qed.

(* the head of a time-sorted list is the earliest time *)
Lemma sorted_head_min a r : sorted_t (a :: r) = true -> forall b, In b r -> xq_leb (o_t a) (o_t b) = true.
Proof.
  revert a. induction r as [|c r IH]; intros a Hs b Hin; [destruct Hin|].
  cbn [sorted_t] in Hs. apply andb_true_iff in Hs. destruct Hs as [Hac Hr].
  destruct Hin as [->|Hin]; [exact Hac|].
  eapply xq_leb_trans; [exact Hac|]. apply IH; assumption.
Qed.

Lemma tref_default_is_min out o :
  sorted_t out = true -> In o out ->
  exists t0, tref_of TrefDefault (map o_t out) = Some t0 /\ xq_leb t0 (o_t o) = true.
Proof.
  destruct out as [|a r]; intros Hs Hin; [destruct Hin|]. cbn. exists (o_t a). split; [reflexivity|].
  destruct Hin as [->|Hin].
  - destruct (xq_leb (o_t o) (o_t o)) eqn:E; [reflexivity|]. pose proof (xq_leb_total _ _ E). congruence.
  - eapply sorted_head_min; eassumption.
Qed.

(* ---- covariance: rows and columns follow the same permutation as times and velocities ---- *)
Lemma init_check_cov_sound clean t rv cov pi ot orv ocov :
  init_check_cov clean t rv cov pi ot orv ocov = true ->
  Permutation pi (kept (fin_mask_cov clean t rv cov)) /\
  ot = gather XNaN pi t /\ orv = gather XNaN pi rv /\ ocov = gather2 pi cov /\ sorted_x ot = true.
Proof.
  unfold init_check_cov. rewrite !andb_true_iff. intros [[[[H1 H2] H3] H4] H5].
  apply enumerates_perm in H1.
  apply (list_eqb_eq x_ideqb x_ideqb_eq) in H2, H3.
  apply (list_eqb_eq _ (list_eqb_eq x_ideqb x_ideqb_eq)) in H4.
  repeat split; congruence.
Qed.

Lemma gather2_entry pi cov i j :
  (i < length pi)%nat -> (j < length pi)%nat ->
  nth j (nth i (gather2 pi cov) []) XNaN = nth (nth j pi O) (nth (nth i pi O) cov []) XNaN.
Proof.
  intros Hi Hj. unfold gather2.
  rewrite (nth_indep _ [] (gather XNaN pi (nth O cov []))) by (rewrite map_length; exact Hi).
  rewrite (map_nth (fun i0 => gather XNaN pi (nth i0 cov [])) pi O i).
  unfold gather.
  rewrite (nth_indep _ XNaN (nth O (nth (nth i pi O) cov []) XNaN)) by (rewrite map_length; exact Hj).
  rewrite (map_nth (fun i0 => nth i0 (nth (nth i pi O) cov []) XNaN) pi O j). reflexivity.
Qed.

(* ---- copy and slicing ---- *)
Lemma filter_keep_false l : filter (keep false) l = l.
Proof. induction l as [|a l IH]; cbn; [reflexivity|]. rewrite IH. reflexivity. Qed.

Lemma copy_check_sound tol orig tr pi cp tr' :
  copy_check tol orig tr pi cp tr' = true ->
  Permutation cp orig /\ sorted_t cp = true /\ (tr = None <-> tr' = None).
Proof.
  unfold copy_check. rewrite !andb_true_iff, Nat.eqb_eq. intros [[H1 H2] H3].
  apply init_check_sound in H1. destruct H1 as (Hp & Hs & _). rewrite filter_keep_false in Hp.
  repeat split; try assumption; destruct tr, tr'; try discriminate; congruence.
Qed.

Lemma slice_check_cov_sound t rv cov sel st srv scov :
  slice_check_cov t rv cov sel st srv scov = true ->
  st = gather XNaN sel t /\ srv = gather XNaN sel rv /\ scov = gather2 sel cov /\
  forall i j, (i < length sel)%nat -> (j < length sel)%nat ->
    nth j (nth i scov []) XNaN = nth (nth j sel O) (nth (nth i sel O) cov []) XNaN.
Proof.
  unfold slice_check_cov. rewrite !andb_true_iff. intros [[H1 H2] H3].
  apply (list_eqb_eq x_ideqb x_ideqb_eq) in H1, H2.
  apply (list_eqb_eq _ (list_eqb_eq x_ideqb x_ideqb_eq)) in H3.
  repeat split; try congruence. intros i j Hi Hj. subst scov. apply gather2_entry; assumption.
Qed.

Lemma slice_check_sound orig sel pi out :
  slice_check orig sel pi out = true ->
  Permutation out (gather obs_d sel orig) /\ sorted_t out = true.
Proof.
  unfold slice_check. rewrite !andb_true_iff. intros [[H1 H2] H3].
  apply enumerates_perm in H1. apply (list_eqb_eq obs_eqb obs_eqb_eq) in H2. subst out.
  split; [|assumption]. unfold gather. apply Permutation_map, H1.
Qed.
