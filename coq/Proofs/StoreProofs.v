(* C12 -- proofs about the sample-file store model. *)
From Coq Require Import QArith ZArith List Bool Arith Lia.
From TJ Require Import Base.XQ Base.Corr Model.RVData Proofs.RVDataProofs Model.Store.
Import ListNotations.

Lemma hdr_eqb_eq a b : hdr_eqb a b = true <-> a = b.
Proof.
  unfold hdr_eqb. revert b. induction a as [|[n u] a IH]; destruct b as [|[n' u'] b]; cbn;
    try (split; discriminate); [tauto|].
  rewrite !andb_true_iff, !Nat.eqb_eq, IH. split.
  - intros [[-> ->] ->]. reflexivity.
  - intros H. injection H as -> -> ->. auto.
Qed.

(* in particular a table with fewer (a prefix of the) columns is NOT compatible *)
Lemma hdr_prefix_incompatible a b c : hdr_eqb (a ++ c :: b) a = false.
Proof.
  destruct (hdr_eqb (a ++ c :: b) a) eqn:E; [|reflexivity]. apply hdr_eqb_eq in E.
  apply (f_equal (@length _)) in E. rewrite app_length in E. cbn in E. lia.
Qed.

Lemma write_fresh ow app t : write ow app t None = (Some t, WOk).
Proof. reflexivity. Qed.
Lemma write_overwrite t s : write true false t s = (Some t, WOk).
Proof. destruct s; reflexivity. Qed.
(* round trip *)
Lemma read_after_write t s : read (fst (write true false t s)) = Some t.
Proof. rewrite write_overwrite. reflexivity. Qed.

(* a refused write leaves the store exactly as it was *)
Lemma refused_unchanged ow app t s s' r : write ow app t s = (s', r) -> r <> WOk -> s' = s.
Proof.
  unfold write. destruct s as [old|]; [|intros H; injection H as <- <-; congruence].
  destruct app, ow; cbn [andb].
  - intros H; injection H as <- <-; congruence.
  - destruct (hdr_eqb (t_hdr old) (t_hdr t) && meta_eqb (t_meta old) (t_meta t)); intros H; injection H as <- <-; congruence.
  - intros H; injection H as <- <-; congruence.
  - intros H; injection H as <- <-; congruence.
Qed.

(* both flags: the table is replaced, whatever was there *)
Lemma write_both_flags t s : write true true t s = (Some t, WOk).
Proof. destruct s; reflexivity. Qed.

(* an append is accepted iff header (names, order, units) and metadata agree; then rows are concatenated *)
Lemma append_spec t old :
  write false true t (Some old) =
    if hdr_eqb (t_hdr old) (t_hdr t) && meta_eqb (t_meta old) (t_meta t)
    then (Some (mk_tbl (t_hdr old) (t_meta old) (t_rows old ++ t_rows t)), WOk)
    else (Some old, WIncompatible).
Proof. reflexivity. Qed.

Lemma meta_eqb_refl m : meta_eqb m m = true.
Proof.
  unfold meta_eqb. rewrite !Nat.eqb_refl, !andb_true_r. destruct (m_tref m) as [x|]; cbn; [|reflexivity].
  destruct x; cbn; try reflexivity. unfold q_ideqb. rewrite Z.eqb_refl, Pos.eqb_refl. reflexivity.
Qed.
Lemma hdr_eqb_refl h : hdr_eqb h h = true.
Proof. apply hdr_eqb_eq. reflexivity. Qed.

(* any sequence of compatible appends: rows = concatenation of everything written, in order *)
Lemma appends_concat h m : forall (chunks : list (list (list XQ))) (rows0 : list (list XQ)),
  fold_left (fun s c => fst (write false true (mk_tbl h m c) s)) chunks (Some (mk_tbl h m rows0))
  = Some (mk_tbl h m (rows0 ++ concat chunks)).
Proof.
  induction chunks as [|c cs IH]; intros rows0; cbn [fold_left concat].
  - rewrite app_nil_r. reflexivity.
  - rewrite append_spec. cbn [t_hdr t_meta t_rows]. rewrite hdr_eqb_refl, meta_eqb_refl. cbn [andb fst].
    rewrite IH, app_assoc. reflexivity.
Qed.

(* ---- batch reads ---- *)
Lemma slice_idx_spec fuel : forall lo hi step,
  (0 < step)%nat -> (hi <= lo + fuel * step)%nat ->
  forall i, In i (slice_idx fuel lo hi step) <-> (exists k, i = lo + k * step /\ i < hi)%nat.
Proof.
  induction fuel as [|f IH]; intros lo hi step Hs Hf i; cbn [slice_idx].
  - split; [intros []|]. intros (k & -> & Hlt). cbn in Hf. nia.
  - destruct (Nat.ltb lo hi) eqn:E.
    + apply Nat.ltb_lt in E. cbn [In]. rewrite IH by (try assumption; nia). split.
      * intros [<-|(k & -> & Hlt)]; [exists O; lia|exists (S k); nia].
      * intros (k & -> & Hlt). destruct k as [|k]; [left; lia|right; exists k; nia].
    + apply Nat.ltb_ge in E. split; [intros []|]. intros (k & -> & Hlt). nia.
Qed.

Lemma slice_idx_contiguous fuel : forall lo hi,
  (hi <= lo + fuel)%nat -> slice_idx fuel lo hi 1 = seq lo (hi - lo).
Proof.
  induction fuel as [|f IH]; intros lo hi Hf; cbn [slice_idx].
  - replace (hi - lo)%nat with O by lia. reflexivity.
  - destruct (Nat.ltb lo hi) eqn:E.
    + apply Nat.ltb_lt in E. rewrite IH by lia. replace (hi - lo)%nat with (S (hi - (lo + 1))) by lia.
      cbn [seq]. f_equal. f_equal; lia.
    + apply Nat.ltb_ge in E. replace (hi - lo)%nat with O by lia. reflexivity.
Qed.

(* an index read returns exactly one row per requested index, in the given order, repeats kept *)
Lemma read_idx_rows t cols idx :
  length (read_idx t cols idx) = length idx /\
  forall k, (k < length idx)%nat ->
    nth k (read_idx t cols idx) [] = pick_cols (t_hdr t) cols (nth (nth k idx O) (t_rows t) []).
Proof.
  unfold read_idx, rows_at. split; [apply map_length|]. intros k Hk.
  rewrite (nth_indep _ [] ((fun i => pick_cols (t_hdr t) cols (nth i (t_rows t) [])) O)) by (rewrite map_length; exact Hk).
  rewrite (map_nth (fun i => pick_cols (t_hdr t) cols (nth i (t_rows t) [])) idx O). reflexivity.
Qed.
