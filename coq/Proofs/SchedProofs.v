From Coq Require Import List Arith Lia Permutation.
From TJ Require Import Model.Sched.
Import ListNotations.

Section Proofs.
Variables (W T R : Type).
Variable step : W -> T -> W * R.
Variable f : T -> R.
(* the result of a task does not depend on the private state of the worker that executes it
   (for the likelihood kernel: C05_history_independent) *)
Hypothesis Hpure : forall st t, snd (step st t) = f t.

Lemma upd_length {A} (l : list A) i x : length (upd l i x) = length l.
Proof. revert i. induction l as [|a l IH]; intros [|i]; cbn; auto. Qed.
Lemma nth_error_upd_same {A} (l : list A) i x : i < length l -> nth_error (upd l i x) i = Some x.
Proof. revert i. induction l as [|a l IH]; intros [|i] H; cbn in *; try lia; auto. apply IH. lia. Qed.
Lemma nth_error_upd_other {A} (l : list A) i j x : i <> j -> nth_error (upd l i x) j = nth_error l j.
Proof. revert i j. induction l as [|a l IH]; intros [|i] [|j] H; cbn; auto; try congruence. Qed.

Lemma nth_error_ext' {A} (l1 l2 : list A) : (forall j, nth_error l1 j = nth_error l2 j) -> l1 = l2.
Proof.
  revert l2. induction l1 as [|a l1 IH]; intros [|b l2] H; auto.
  - specialize (H 0). discriminate.
  - specialize (H 0). discriminate.
  - f_equal; [specialize (H 0); cbn in H; congruence|]. apply IH. intros j. exact (H (S j)).
Qed.

(* slot j after a schedule: the task's own value if task j completed in it (on whichever worker, after whatever else that
   worker did), the old content otherwise *)
Lemma run_sched_slots (tasks : list T) : forall (sch : list (nat * nat)) (ws : list W) (slots : list (option R)) (n_workers : nat),
  length slots = length tasks -> length ws = n_workers ->
  Forall (fun e => fst e < n_workers /\ snd e < length tasks) sch ->
  forall j, nth_error (snd (run_sched W T R step tasks ws slots sch)) j
            = if in_dec Nat.eq_dec j (map snd sch) then option_map (fun t => Some (f t)) (nth_error tasks j) else nth_error slots j.
Proof.
  induction sch as [|[w i] rest IH]; intros ws slots nw Hs Hw Hall j; [reflexivity|].
  inversion Hall as [|e l [Hwi Hi] Hrest]; subst. cbn [fst snd] in *.
  cbn [run_sched].
  destruct (nth_error ws w) as [st|] eqn:Ew; [|apply nth_error_None in Ew; lia].
  destruct (nth_error tasks i) as [t|] eqn:Et; [|apply nth_error_None in Et; lia].
  destruct (step st t) as [st' r] eqn:Es.
  rewrite (IH (upd ws w st') (upd slots i (Some r)) (length ws)); [|rewrite upd_length; exact Hs|apply upd_length|exact Hrest].
  cbn [map snd]. destruct (in_dec Nat.eq_dec j (map snd rest)) as [Hin|Hnin].
  - destruct (in_dec Nat.eq_dec j (i :: map snd rest)) as [_|Hn]; [reflexivity|exfalso; apply Hn; right; exact Hin].
  - destruct (Nat.eq_dec i j) as [->|Hne].
    + destruct (in_dec Nat.eq_dec j (j :: map snd rest)) as [_|Hn]; [|exfalso; apply Hn; left; reflexivity].
      rewrite nth_error_upd_same by lia. rewrite Et. cbn. f_equal. f_equal.
      specialize (Hpure st t). rewrite Es in Hpure. exact Hpure.
    + destruct (in_dec Nat.eq_dec j (i :: map snd rest)) as [[H|H]|_]; [congruence|contradiction|].
      apply nth_error_upd_other. exact Hne.
Qed.

(* pool.map returns, for EVERY complete schedule (any assignment of tasks to workers, any completion order, any initial
   private states), the per-task values in task order *)
Theorem pool_map_schedule_independent (tasks : list T) (ws : list W) (sch : list (nat * nat)) :
  complete (length tasks) (length ws) sch ->
  pool_map W T R step tasks ws sch = map (fun t => Some (f t)) tasks.
Proof.
  intros [Hperm Hw]. unfold pool_map.
  assert (Hall : Forall (fun e : nat * nat => fst e < length ws /\ snd e < length tasks) sch).
  { apply Forall_forall. intros e He. split; [exact (proj1 (Forall_forall _ _) Hw e He)|].
    assert (Hin : In (snd e) (seq 0 (length tasks))) by (apply (Permutation_in _ Hperm), in_map, He).
    apply in_seq in Hin. lia. }
  apply nth_error_ext'. intros j.
  rewrite (run_sched_slots tasks sch ws (repeat None (length tasks)) (length ws)); [|apply repeat_length|reflexivity|exact Hall].
  destruct (in_dec Nat.eq_dec j (map snd sch)) as [Hin|Hnin].
  - rewrite nth_error_map. reflexivity.
  - destruct (lt_dec j (length tasks)) as [Hlt|Hge].
    + exfalso. apply Hnin. apply (Permutation_in _ (Permutation_sym Hperm)). apply in_seq. lia.
    + rewrite (proj2 (nth_error_None _ _)) by (rewrite repeat_length; lia).
      symmetry. apply nth_error_None. rewrite map_length. lia.
Qed.
End Proofs.

(* ---- the same with results that may depend on the worker's private state only through an equivalence the steps preserve ---- *)
Section Rel.
Variables (W T R : Type).
Variable step : W -> T -> W * R.
Variable E : W -> W -> Prop.
Hypothesis Etrans : forall a b c, E a b -> E b c -> E a c.
Hypothesis Hres : forall st st' t, E st st' -> snd (step st t) = snd (step st' t).
Hypothesis Hpres : forall st t, E st (fst (step st t)).
Variable w0 : W.

Lemma Forall_upd {A} (P : A -> Prop) (l : list A) i x : Forall P l -> P x -> Forall P (upd l i x).
Proof. intros Hl Hx. revert i. induction Hl as [|a l Ha Hl IH]; intros [|i]; cbn; constructor; auto. Qed.

Lemma run_sched_slots_rel (tasks : list T) : forall (sch : list (nat * nat)) (ws : list W) (slots : list (option R)),
  length slots = length tasks -> Forall (E w0) ws ->
  Forall (fun e => fst e < length ws /\ snd e < length tasks) sch ->
  forall j, nth_error (snd (run_sched W T R step tasks ws slots sch)) j
            = if in_dec Nat.eq_dec j (map snd sch) then option_map (fun t => Some (snd (step w0 t))) (nth_error tasks j) else nth_error slots j.
Proof.
  induction sch as [|[w i] rest IH]; intros ws slots Hs HE Hall j; [reflexivity|].
  inversion Hall as [|e l [Hwi Hi] Hrest]; subst. cbn [fst snd] in *.
  cbn [run_sched].
  destruct (nth_error ws w) as [st|] eqn:Ew; [|apply nth_error_None in Ew; lia].
  destruct (nth_error tasks i) as [t|] eqn:Et; [|apply nth_error_None in Et; lia].
  assert (Est : E w0 st) by (apply (proj1 (Forall_forall _ _) HE), (nth_error_In _ _ Ew)).
  destruct (step st t) as [st' r] eqn:Es.
  assert (Est' : E w0 st') by (apply (Etrans _ st); [exact Est|]; specialize (Hpres st t); rewrite Es in Hpres; exact Hpres).
  rewrite (IH (upd ws w st') (upd slots i (Some r))); [|rewrite upd_length; exact Hs|apply Forall_upd; assumption|rewrite upd_length; exact Hrest].
  cbn [map snd]. destruct (in_dec Nat.eq_dec j (map snd rest)) as [Hin|Hnin].
  - destruct (in_dec Nat.eq_dec j (i :: map snd rest)) as [_|Hn]; [reflexivity|exfalso; apply Hn; right; exact Hin].
  - destruct (Nat.eq_dec i j) as [->|Hne].
    + destruct (in_dec Nat.eq_dec j (j :: map snd rest)) as [_|Hn]; [|exfalso; apply Hn; left; reflexivity].
      rewrite nth_error_upd_same by lia. rewrite Et. cbn. f_equal. f_equal.
      pose proof (Hres w0 st t Est) as H. rewrite Es in H. cbn in H. symmetry. exact H.
    + destruct (in_dec Nat.eq_dec j (i :: map snd rest)) as [[H|H]|_]; [congruence|contradiction|].
      apply nth_error_upd_other. exact Hne.
Qed.

(* for EVERY complete schedule and all worker states equivalent to w0: the values a single fresh worker would compute, in task order *)
Theorem pool_map_schedule_independent_rel (tasks : list T) (ws : list W) (sch : list (nat * nat)) :
  Forall (E w0) ws -> complete (length tasks) (length ws) sch ->
  pool_map W T R step tasks ws sch = map (fun t => Some (snd (step w0 t))) tasks.
Proof.
  intros HE [Hperm Hw]. unfold pool_map.
  assert (Hall : Forall (fun e : nat * nat => fst e < length ws /\ snd e < length tasks) sch).
  { apply Forall_forall. intros e He. split; [exact (proj1 (Forall_forall _ _) Hw e He)|].
    assert (Hin : In (snd e) (seq 0 (length tasks))) by (apply (Permutation_in _ Hperm), in_map, He).
    apply in_seq in Hin. lia. }
  apply nth_error_ext'. intros j.
  rewrite (run_sched_slots_rel tasks sch ws (repeat None (length tasks))); [|apply repeat_length|exact HE|exact Hall].
  destruct (in_dec Nat.eq_dec j (map snd sch)) as [Hin|Hnin].
  - rewrite nth_error_map. reflexivity.
  - destruct (lt_dec j (length tasks)) as [Hlt|Hge].
    + exfalso. apply Hnin. apply (Permutation_in _ (Permutation_sym Hperm)). apply in_seq. lia.
    + rewrite (proj2 (nth_error_None _ _)) by (rewrite repeat_length; lia).
      symmetry. apply nth_error_None. rewrite map_length. lia.
Qed.
End Rel.
