(* C19 -- max_phase_gap does not change under time reversal of the observing pattern (nor under a shift of the reference epoch).
   Reversal t -> a - t turns a phase phi into frac(kappa - phi): a reflection of the phase circle followed by a rotation. *)
From Coq Require Import QArith Qround ZArith List Bool Arith Lia Lqa Permutation.
From TJ Require Import Base.Corr Base.XQ Base.ArgMax Model.Diagnostics Proofs.DiagProofs.
Import ListNotations.
Open Scope Q_scope.

(* ---------- lists of rationals up to == ---------- *)
Definition leq (l l' : list Q) : Prop := Forall2 Qeq l l'.
Lemma leq_refl l : leq l l. Proof. induction l; constructor; [reflexivity|assumption]. Qed.
Lemma leq_sym l l' : leq l l' -> leq l' l.
Proof. induction 1; constructor; [symmetry; assumption|assumption]. Qed.
Lemma leq_trans a b c : leq a b -> leq b c -> leq a c.
Proof.
  intros H. revert c. induction H as [|x y l l' Hxy H IH]; intros c Hc; inversion Hc; subst; constructor.
  - etransitivity; eassumption.
  - apply IH. assumption.
Qed.
Lemma leq_app a a' b b' : leq a a' -> leq b b' -> leq (a ++ b) (a' ++ b').
Proof. intros H1 H2. induction H1; cbn; [assumption|constructor; assumption]. Qed.
Lemma leq_rev a a' : leq a a' -> leq (rev a) (rev a').
Proof. induction 1; cbn; [constructor|]. apply leq_app; [assumption|constructor; [assumption|constructor]]. Qed.
Lemma leq_in l l' g : leq l l' -> In g l -> exists g', In g' l' /\ g == g'.
Proof.
  induction 1 as [|x y l l' Hxy H IH]; intros Hin; [destruct Hin|].
  destruct Hin as [<-|Hin]; [exists y; split; [left; reflexivity|assumption]|].
  destruct (IH Hin) as (g' & Hg & E). exists g'. split; [right; assumption|assumption].
Qed.

(* ---------- diffs ---------- *)
Lemma diffs_cons2 a b l : diffs (a :: b :: l) = (b - a) :: diffs (b :: l).
Proof. reflexivity. Qed.
Lemma diffs_app A b B : diffs (A ++ b :: B) = diffs (A ++ [b]) ++ diffs (b :: B).
Proof.
  induction A as [|a A IH]; [reflexivity|].
  destruct A as [|a' A].
  - change ([a] ++ b :: B) with (a :: b :: B). change ([a] ++ [b]) with [a; b]. rewrite !diffs_cons2. reflexivity.
  - change ((a :: a' :: A) ++ b :: B) with (a :: a' :: (A ++ b :: B)).
    change ((a :: a' :: A) ++ [b]) with (a :: a' :: (A ++ [b])).
    rewrite !diffs_cons2.
    change (a' :: A ++ b :: B) with ((a' :: A) ++ b :: B). change (a' :: A ++ [b]) with ((a' :: A) ++ [b]).
    rewrite IH. reflexivity.
Qed.
Lemma diffs_leq l l' : leq l l' -> leq (diffs l) (diffs l').
Proof.
  induction 1 as [|x y l l' Hxy H IH]; [constructor|].
  inversion H as [|x2 y2 r r' Hxy2 Hr]; subst; [constructor|].
  cbn [diffs]. constructor; [rewrite Hxy, Hxy2; reflexivity|exact IH].
Qed.
Lemma diffs_shift (c : Q) l : leq (diffs (map (fun x => x + c) l)) (diffs l).
Proof.
  induction l as [|a l IH]; [constructor|]. destruct l as [|b l]; [constructor|].
  cbn [map diffs] in *. constructor; [ring|exact IH].
Qed.
(* reflecting a sequence reverses its differences *)
Lemma diffs_reflect (k : Q) l : leq (diffs (rev (map (fun x => k - x) l))) (rev (diffs l)).
Proof.
  induction l as [|a l IH]; [constructor|]. destruct l as [|b l]; [constructor|].
  cbn [map rev] in *. 
  (* rev (map f (b :: l)) ++ [k - a], and rev (map f (b::l)) = rev (map f l) ++ [k - b] *)
  rewrite <- app_assoc. cbn [app]. rewrite diffs_app. cbn [diffs].
  apply leq_app; [exact IH|]. constructor; [ring|constructor].
Qed.

(* ---------- maxima of gap lists that agree up to order and == ---------- *)
Definition permq (l l' : list Q) : Prop := exists m, Permutation l m /\ leq m l'.
Lemma permq_in l l' g : permq l l' -> In g l -> exists g', In g' l' /\ g == g'.
Proof. intros (m & Hp & Hl) Hin. apply (leq_in m l' g Hl). apply (Permutation_in _ Hp Hin). Qed.
Lemma leq_perm m l' : leq m l' -> forall m', Permutation m m' -> exists l'', Permutation l' l'' /\ leq m' l''.
Proof.
  intros Hl m' Hp. revert l' Hl. induction Hp as [|x m m' Hp IH|x y m|m1 m2 m3 H12 IH12 H23 IH23]; intros l' Hl.
  - exists l'. split; [reflexivity|assumption].
  - inversion Hl as [|x0 y0 r r' Hxy Hr]; subst. destruct (IH r' Hr) as (l'' & Hp' & Hl').
    exists (y0 :: l''). split; [constructor; assumption|constructor; assumption].
  - inversion Hl as [|x0 y0 r r' Hxy Hr]; subst. inversion Hr as [|x1 y1 r1 r1' Hxy1 Hr1]; subst.
    exists (y1 :: y0 :: r1'). split; [apply perm_swap|constructor; [assumption|constructor; assumption]].
  - destruct (IH12 l' Hl) as (l2 & Hp2 & Hl2). destruct (IH23 l2 Hl2) as (l3 & Hp3 & Hl3).
    exists l3. split; [etransitivity; eassumption|assumption].
Qed.
Lemma permq_sym l l' : permq l l' -> permq l' l.
Proof.
  intros (m & Hp & Hl). destruct (leq_perm m l' Hl l (Permutation_sym Hp)) as (l'' & Hp' & Hl').
  exists l''. split; [assumption|apply leq_sym; assumption].
Qed.
Lemma qmaxl_le_of l l' : (forall g, In g l -> exists g', In g' l' /\ g == g') -> qmaxl 0 l <= qmaxl 0 l'.
Proof.
  intros H. destruct (qmaxl_in 0 l) as [E|Hin]; [rewrite E; apply qmaxl_ge_d|].
  destruct (H _ Hin) as (g' & Hg' & E). rewrite E. apply qmaxl_ge. assumption.
Qed.
Lemma qmaxl_permq l l' : permq l l' -> qmaxl 0 l == qmaxl 0 l'.
Proof.
  intros H. apply Qle_antisym; apply qmaxl_le_of; intros g Hg.
  - exact (permq_in l l' g H Hg).
  - exact (permq_in l' l g (permq_sym l l' H) Hg).
Qed.

(* ---------- the cyclic gap list and the reflected circle ---------- *)
Lemma gaps_cons h t : gaps (h :: t) = diffs ((h :: t) ++ [h + 1]).
Proof. reflexivity. Qed.
Lemma gaps_leq X X' : leq X X' -> leq (gaps X) (gaps X').
Proof.
  intros H. inversion H as [|x y r r' Hxy Hr]; subst; [constructor|].
  rewrite !gaps_cons. apply diffs_leq. apply leq_app; [assumption|]. constructor; [rewrite Hxy; reflexivity|constructor].
Qed.

(* L1: phases <= c (reflected to c - phi), L2: phases > c (reflected to c + 1 - phi); the reflected sorted list is
   rev (c - L1) ++ rev (c + 1 - L2).  Its cyclic gaps are those of L1 ++ L2, in another order. *)
Definition reflected (c : Q) (L1 L2 : list Q) : list Q :=
  rev (map (fun x => c - x) L1) ++ rev (map (fun x => c + 1 - x) L2).

Lemma reflected_snoc c l ak L2 :
  reflected c (l ++ [ak]) L2 = (c - ak) :: (rev (map (fun x => c - x) l) ++ rev (map (fun x => c + 1 - x) L2)).
Proof. unfold reflected. rewrite map_app, rev_app_distr. reflexivity. Qed.

Lemma rev_map_E c ak L2 l :
  rev (map (fun x => c + 1 - x) (ak :: L2 ++ map (fun x => x + 1) (l ++ [ak])))
  = (c + 1 - (ak + 1)) :: (rev (map (fun x => c + 1 - (x + 1)) l) ++ rev (map (fun x => c + 1 - x) L2)) ++ [c + 1 - ak].
Proof.
  cbn [map rev]. rewrite map_app, rev_app_distr, map_map, map_app, rev_app_distr. reflexivity.
Qed.

Lemma permq_of_leq_rev_app (D X Y Y' : list Q) : leq D (rev (X ++ Y')) -> leq Y' Y -> permq D (Y ++ X).
Proof.
  intros H1 H2.
  (* D ==list rev (X ++ Y') ; rev (X ++ Y') is a permutation of Y' ++ X ==list Y ++ X *)
  assert (Hp : Permutation (rev (X ++ Y')) (Y' ++ X)) by (rewrite <- Permutation_rev; apply Permutation_app_comm).
  destruct (leq_perm (rev (X ++ Y')) D (leq_sym _ _ H1) (Y' ++ X) Hp) as (D' & HpD & HlD).
  exists D'. split; [exact HpD|]. eapply leq_trans; [apply leq_sym, HlD|]. apply leq_app; [exact H2|apply leq_refl].
Qed.

Lemma gaps_reflected_A c h t L2 : permq (gaps (reflected c (h :: t) L2)) (gaps ((h :: t) ++ L2)).
Proof.
  destruct (exists_last (l := h :: t)) as (l & ak & El); [discriminate|].
  set (E := ak :: L2 ++ map (fun x => x + 1) (h :: t)).
  set (X := diffs (ak :: L2 ++ [h + 1])).
  assert (HE : diffs E = X ++ diffs (map (fun x => x + 1) (h :: t))).
  { unfold E, X. cbn [map]. change (ak :: L2 ++ (h + 1) :: map (fun x => x + 1) t) with ((ak :: L2) ++ (h + 1) :: map (fun x => x + 1) t).
    rewrite diffs_app. reflexivity. }
  assert (HG : gaps ((h :: t) ++ L2) = diffs (h :: t) ++ X).
  { change ((h :: t) ++ L2) with (h :: (t ++ L2)). rewrite gaps_cons. unfold X.
    change (h :: t ++ L2) with ((h :: t) ++ L2). rewrite <- app_assoc, El, <- app_assoc. cbn [app].
    rewrite diffs_app. reflexivity. }
  assert (H1 : leq (gaps (reflected c (h :: t) L2)) (rev (diffs E))).
  { eapply leq_trans; [|apply (diffs_reflect (c + 1) E)].
    unfold E. rewrite El, reflected_snoc, rev_map_E, gaps_cons. apply diffs_leq.
    cbn [app]. constructor; [ring|]. apply leq_app; [|constructor; [ring|constructor]].
    apply leq_app; [|apply leq_refl]. apply leq_rev. clear. induction l; cbn; constructor; [ring|assumption]. }
  rewrite HG. rewrite HE in H1.
  apply (permq_of_leq_rev_app _ X (diffs (h :: t)) (diffs (map (fun x => x + 1) (h :: t))) H1). apply diffs_shift.
Qed.

Lemma gaps_reflected_B c h t : permq (gaps (reflected c [] (h :: t))) (gaps (h :: t)).
Proof.
  destruct (exists_last (l := h :: t)) as (l & an & El); [discriminate|].
  set (E := (an - 1) :: h :: t).
  assert (HE : diffs E = [h - (an - 1)] ++ diffs (h :: t)) by reflexivity.
  assert (HG : gaps (h :: t) = diffs (h :: t) ++ [h + 1 - an]).
  { rewrite gaps_cons. rewrite El, <- app_assoc. cbn [app]. rewrite diffs_app. reflexivity. }
  assert (H1 : leq (gaps (reflected c [] (h :: t))) (rev (diffs E))).
  { eapply leq_trans; [|apply (diffs_reflect (c + 1) E)].
    unfold E. rewrite El. unfold reflected. cbn [map rev app]. rewrite map_app, rev_app_distr. cbn [map rev app]. rewrite gaps_cons. apply diffs_leq.
    cbn [app]. constructor; [reflexivity|]. apply leq_app; [apply leq_refl|constructor; [ring|constructor]]. }
  rewrite HG. rewrite HE in H1.
  destruct (permq_of_leq_rev_app _ [h - (an - 1)] (diffs (h :: t)) (diffs (h :: t)) H1 (leq_refl _)) as (m & Hp & Hl).
  exists m. split; [exact Hp|]. eapply leq_trans; [exact Hl|]. apply leq_app; [apply leq_refl|constructor; [ring|constructor]].
Qed.

Lemma gaps_reflected c L1 L2 : permq (gaps (reflected c L1 L2)) (gaps (L1 ++ L2)).
Proof.
  destruct L1 as [|h t]; [|apply gaps_reflected_A].
  destruct L2 as [|h t]; [|apply gaps_reflected_B].
  exists []. split; constructor.
Qed.

(* ---------- floor / fractional part of a difference ---------- *)
Lemma floor_unique q n : inject_Z n <= q -> q < inject_Z n + 1 -> Qfloor q = n.
Proof.
  intros H1 H2.
  assert (A : (n <= Qfloor q)%Z) by (rewrite <- (Qfloor_Z n); apply Qfloor_resp_le, H1).
  assert (B : (Qfloor q < n + 1)%Z).
  { rewrite Zlt_Qlt. rewrite inject_Z_plus. change (inject_Z 1) with 1. pose proof (Qfloor_le q). lra. }
  lia.
Qed.
Lemma Qle_bool_false_lt a b : Qle_bool a b = false -> b < a.
Proof.
  intros H. destruct (Qlt_le_dec b a) as [Hlt|Hle]; [exact Hlt|].
  apply Qle_bool_iff in Hle. congruence.
Qed.
Lemma qfrac_sub x y :
  qfrac (x - y) == if Qle_bool (qfrac y) (qfrac x) then qfrac x - qfrac y else qfrac x + 1 - qfrac y.
Proof.
  destruct (qfrac_range x) as [X0 X1]. destruct (qfrac_range y) as [Y0 Y1].
  unfold qfrac in *.
  destruct (Qle_bool (y - inject_Z (Qfloor y)) (x - inject_Z (Qfloor x))) eqn:E.
  - apply Qle_bool_iff in E.
    rewrite (floor_unique (x - y) (Qfloor x - Qfloor y)).
    + unfold Zminus. rewrite inject_Z_plus, inject_Z_opp. ring.
    + unfold Zminus. rewrite inject_Z_plus, inject_Z_opp. lra.
    + unfold Zminus. rewrite inject_Z_plus, inject_Z_opp. lra.
  - apply Qle_bool_false_lt in E.
    rewrite (floor_unique (x - y) (Qfloor x - Qfloor y - 1)).
    + unfold Zminus. rewrite !inject_Z_plus, !inject_Z_opp. change (inject_Z 1) with 1. ring.
    + unfold Zminus. rewrite !inject_Z_plus, !inject_Z_opp. change (inject_Z 1) with 1. lra.
    + unfold Zminus. rewrite !inject_Z_plus, !inject_Z_opp. change (inject_Z 1) with 1. lra.
Qed.

(* ---------- the reflected phases, sorted ---------- *)
Definition refl (c phi : Q) : Q := Qred (if Qle_bool phi c then c - phi else c + 1 - phi).
Lemma refl_canonical c phi : canonical (refl c phi).
Proof. unfold canonical, refl. apply Qred_complete, Qred_correct. Qed.
Lemma refl_lo c phi : Qle_bool phi c = true -> refl c phi == c - phi.
Proof. intros H. unfold refl. rewrite H. apply Qred_correct. Qed.
Lemma refl_hi c phi : Qle_bool phi c = false -> refl c phi == c + 1 - phi.
Proof. intros H. unfold refl. rewrite H. apply Qred_correct. Qed.

Definition lo c (L : list Q) := filter (fun p => Qle_bool p c) L.
Definition hi c (L : list Q) := filter (fun p => negb (Qle_bool p c)) L.

Lemma sorted_split c L : qsorted L -> L = lo c L ++ hi c L.
Proof.
  induction L as [|a r IH]; intros Hs; [reflexivity|].
  unfold lo, hi in *. cbn [filter]. destruct (Qle_bool a c) eqn:E; cbn [negb].
  - cbn [app]. f_equal. apply IH. eapply qsorted_tail; eassumption.
  - apply Qle_bool_false_lt in E.
    assert (Hall : forall b, In b r -> Qle_bool b c = false).
    { intros b Hb. pose proof (qsorted_head_le a r Hs b Hb) as Hab.
      destruct (Qle_bool b c) eqn:E2; [apply Qle_bool_iff in E2; lra|reflexivity]. }
    assert (H1 : filter (fun p => Qle_bool p c) r = []).
    { clear -Hall. induction r as [|b r IH]; [reflexivity|]. cbn. rewrite (Hall b (or_introl eq_refl)). apply IH. intros x Hx. apply Hall. right. exact Hx. }
    assert (H2 : filter (fun p => negb (Qle_bool p c)) r = r).
    { clear -Hall. induction r as [|b r IH]; [reflexivity|]. cbn. rewrite (Hall b (or_introl eq_refl)). cbn. f_equal. apply IH. intros x Hx. apply Hall. right. exact Hx. }
    rewrite H1, H2. reflexivity.
Qed.

Lemma qsorted_app A B : qsorted A -> qsorted B -> (forall a b, In a A -> In b B -> a <= b) -> qsorted (A ++ B).
Proof.
  induction A as [|a A IH]; intros HA HB H; [exact HB|].
  destruct A as [|a' A].
  - destruct B as [|b B]; [exact I|]. cbn. split; [apply H; left; reflexivity|exact HB].
  - cbn [app] in *. destruct HA as [Haa HA]. split; [exact Haa|]. apply IH; [exact HA|exact HB|].
    intros x y Hx Hy. apply H; [right; exact Hx|exact Hy].
Qed.
Lemma qsorted_rev_map_anti (g : Q -> Q) L :
  qsorted L -> (forall x y, In x L -> In y L -> x <= y -> g y <= g x) -> qsorted (rev (map g L)).
Proof.
  induction L as [|a r IH]; intros Hs Hg; [exact I|].
  cbn [map rev]. apply qsorted_snoc.
  - apply IH; [eapply qsorted_tail; eassumption|]. intros x y Hx Hy. apply Hg; right; assumption.
  - intros y Hy. apply in_rev, in_map_iff in Hy. destruct Hy as (x & <- & Hx).
    apply Hg; [left; reflexivity|right; exact Hx|]. eapply qsorted_head_le; eassumption.
Qed.
Lemma qsorted_filter (f : Q -> bool) L : qsorted L -> qsorted (filter f L).
Proof.
  induction L as [|a r IH]; intros Hs; [exact I|].
  pose proof (IH (qsorted_tail a r Hs)) as Hr. cbn [filter]. destruct (f a); [|exact Hr].
  destruct (filter f r) as [|b r'] eqn:E; [exact I|]. cbn. split; [|exact Hr].
  apply (qsorted_head_le a r Hs). apply (proj1 (filter_In f b r)). rewrite E. left. reflexivity.
Qed.

Section Reflect.
Variable c : Q.
Variable S : list Q.
Hypothesis HS : forall p, In p S -> 0 <= p < 1.
Let L := qsort S.
Let L' := rev (map (refl c) (lo c L)) ++ rev (map (refl c) (hi c L)).

Lemma L_range p : In p L -> 0 <= p < 1.
Proof. intros H. apply HS. apply (Permutation_in _ (qsort_perm S) H). Qed.

Lemma L'_sorted : qsorted L'.
Proof.
  unfold L'. apply qsorted_app.
  - apply qsorted_rev_map_anti; [apply qsorted_filter, qsort_sorted|].
    intros x y Hx Hy Hxy. apply filter_In in Hx, Hy. rewrite (refl_lo c x (proj2 Hx)), (refl_lo c y (proj2 Hy)). lra.
  - apply qsorted_rev_map_anti; [apply qsorted_filter, qsort_sorted|].
    intros x y Hx Hy Hxy. apply filter_In in Hx, Hy. destruct Hx as [_ Hx]. destruct Hy as [_ Hy]. apply negb_true_iff in Hx, Hy.
    rewrite (refl_hi c x Hx), (refl_hi c y Hy). lra.
  - intros a b Ha Hb. apply in_rev, in_map_iff in Ha. apply in_rev, in_map_iff in Hb.
    destruct Ha as (x & <- & Hx). destruct Hb as (y & <- & Hy).
    apply filter_In in Hx, Hy. destruct Hx as [Hx1 Hx2]. destruct Hy as [Hy1 Hy2]. apply negb_true_iff in Hy2.
    rewrite (refl_lo c x Hx2), (refl_hi c y Hy2). apply Qle_bool_iff in Hx2. apply Qle_bool_false_lt in Hy2.
    pose proof (L_range x Hx1). pose proof (L_range y Hy1). lra.
Qed.

Lemma L'_perm : Permutation (map (refl c) S) L'.
Proof.
  unfold L'. rewrite <- !Permutation_rev, <- map_app, <- (sorted_split c L (qsort_sorted S)).
  apply Permutation_map. symmetry. apply qsort_perm.
Qed.

Lemma qsort_reflected : qsort (map (refl c) S) = L'.
Proof.
  apply sorted_perm_unique.
  - rewrite Forall_forall. intros x Hx. apply (Permutation_in _ (qsort_perm _)) in Hx. apply in_map_iff in Hx.
    destruct Hx as (p & <- & _). apply refl_canonical.
  - apply qsort_sorted.
  - apply L'_sorted.
  - rewrite qsort_perm. apply L'_perm.
Qed.

Lemma L'_leq : leq L' (reflected c (lo c L) (hi c L)).
Proof.
  unfold L', reflected. apply leq_app; apply leq_rev.
  - assert (H : forall X, (forall x, In x X -> Qle_bool x c = true) -> leq (map (refl c) X) (map (fun x => c - x) X)).
    { induction X as [|x X IH]; intros HX; [constructor|]. cbn. constructor; [apply refl_lo, HX; left; reflexivity|].
      apply IH. intros y Hy. apply HX. right. exact Hy. }
    apply H. intros x Hx. apply filter_In in Hx. exact (proj2 Hx).
  - assert (H : forall X, (forall x, In x X -> Qle_bool x c = false) -> leq (map (refl c) X) (map (fun x => c + 1 - x) X)).
    { induction X as [|x X IH]; intros HX; [constructor|]. cbn. constructor; [apply refl_hi, HX; left; reflexivity|].
      apply IH. intros y Hy. apply HX. right. exact Hy. }
    apply H. intros x Hx. apply filter_In in Hx. destruct Hx as [_ Hx]. apply negb_true_iff in Hx. exact Hx.
Qed.

(* the largest empty arc of the reflected pattern is the largest empty arc of the pattern *)
Theorem maxgap_reflected : qmaxl 0 (gaps (qsort (map (refl c) S))) == qmaxl 0 (gaps (qsort S)).
Proof.
  rewrite qsort_reflected. apply qmaxl_permq.
  destruct (gaps_reflected c (lo c L) (hi c L)) as (m & Hp & Hl).
  rewrite <- (sorted_split c L (qsort_sorted S)) in Hl. fold L.
  (* gaps L' ==list gaps (reflected ..) ~perm m ==list gaps L *)
  pose proof (gaps_leq _ _ L'_leq) as H0.
  destruct (leq_perm _ _ (leq_sym _ _ H0) m Hp) as (m' & Hp' & Hl').
  exists m'. split; [exact Hp'|]. eapply leq_trans; [apply leq_sym, Hl'|exact Hl].
Qed.
End Reflect.

(* ---------- on observation times ---------- *)
Lemma qfrac_comp x y : x == y -> qfrac x == qfrac y.
Proof. intros H. unfold qfrac. rewrite (Qfloor_comp x y H). rewrite H. reflexivity. Qed.

Lemma phase_of_reversed tref tref0 P a t :
  ~ P == 0 ->
  phase tref P (a - t) = refl (qfrac ((a - tref - tref0) / P)) (phase tref0 P t).
Proof.
  intros HP. apply canonical_eq; [apply phase_canonical|apply refl_canonical|].
  set (kappa := (a - tref - tref0) / P). set (y := (t - tref0) / P).
  rewrite phase_value.
  assert (E : (a - t - tref) / P == kappa - y) by (unfold kappa, y; field; exact HP).
  rewrite (qfrac_comp _ _ E), qfrac_sub.
  assert (Ephi : phase tref0 P t == qfrac y) by apply phase_value.
  unfold refl. rewrite Qred_correct.
  destruct (Qle_bool (qfrac y) (qfrac kappa)) eqn:B1; destruct (Qle_bool (phase tref0 P t) (qfrac kappa)) eqn:B2.
  - rewrite Ephi. reflexivity.
  - apply Qle_bool_iff in B1. apply Qle_bool_false_lt in B2. rewrite Ephi in B2. lra.
  - apply Qle_bool_iff in B2. apply Qle_bool_false_lt in B1. rewrite Ephi in B2. lra.
  - rewrite Ephi. reflexivity.
Qed.

(* time reversal t -> a - t of the observing pattern (any a, e.g. t_max + t_min), whatever the reference epochs *)
Theorem mpg_time_reversal tref tref0 P a ts :
  ~ P == 0 -> max_phase_gap tref P (map (fun t => a - t) ts) == max_phase_gap tref0 P ts.
Proof.
  intros HP. unfold max_phase_gap. rewrite map_map.
  rewrite (map_ext _ _ (fun t => phase_of_reversed tref tref0 P a t HP)).
  rewrite <- (map_map (phase tref0 P) (refl (qfrac ((a - tref - tref0) / P)))).
  apply maxgap_reflected.
  intros p Hp. apply in_map_iff in Hp. destruct Hp as (t & <- & _). apply phase_range.
Qed.

(* a shift of the reference epoch is two reversals *)
Theorem mpg_shift_invariant tref tref' P ts :
  ~ P == 0 -> max_phase_gap tref P ts == max_phase_gap tref' P ts.
Proof.
  intros HP. rewrite <- (mpg_time_reversal tref tref P 0 ts HP). exact (mpg_time_reversal tref tref' P 0 ts HP).
Qed.
