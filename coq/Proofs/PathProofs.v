From Coq Require Import ZArith List Bool Lia.
From TJ Require Import Base.Imp Gen.BatchTasksGen Model.BatchSpec Model.Paths Proofs.BatchProofs.
Import ListNotations. Open Scope Z_scope.

Lemma concat_map_map {A B} (f : A -> B) (ls : list (list A)) : concat (map (map f) ls) = map f (concat ls).
Proof. induction ls as [|l ls IH]; cbn; [reflexivity|]. rewrite IH, map_app. reflexivity. Qed.

Lemma pyslice_all {A} (l : list A) : pyslice l 0 (Z.of_nat (length l)) = l.
Proof.
  unfold pyslice. cbn [Z.to_nat skipn]. rewrite Z.sub_0_r, Nat2Z.id. apply firstn_all.
Qed.

(* any contiguous cover of the rows, evaluated batch by batch and concatenated, is the plain map: same values, input order *)
Theorem run_batches_chain {A B} (eval : A -> B) (rows : list A) (ts : list task) :
  chain 0 (Z.of_nat (length rows)) ts -> run_batches eval rows ts = map eval rows.
Proof.
  intros Hc. unfold run_batches.
  rewrite <- (map_map (task_rows rows) (map eval)), concat_map_map.
  rewrite (chain_concat rows 0 (Z.of_nat (length rows)) ts) by (try lia; exact Hc).
  rewrite pyslice_all. reflexivity.
Qed.

(* ... in particular for the batch list the code builds, for EVERY n_batches >= 1 (more batches than rows included) *)
Theorem batching_invariant {A B} (eval : A -> B) (rows : list A) (n_batches : Z) :
  rows <> [] -> 1 <= n_batches -> run_file_path eval rows n_batches = map eval rows.
Proof.
  intros Hne Hb. unfold run_file_path. apply run_batches_chain.
  assert (Hn : 1 <= Z.of_nat (length rows)) by (destruct rows; [contradiction|cbn [length]; lia]).
  exact (bt_chain (Z.of_nat (length rows)) n_batches 0 true Hb Hn).
Qed.
Theorem batching_invariant_idx {A B} (eval : A -> B) (idx : list A) (n_batches : Z) :
  idx <> [] -> 1 <= n_batches -> run_idx_path eval idx n_batches = map eval idx.
Proof.
  intros Hne Hb. unfold run_idx_path. apply run_batches_chain.
  assert (Hn : 1 <= Z.of_nat (length idx)) by (destruct idx; [contradiction|cbn [length]; lia]).
  exact (bt_chain (Z.of_nat (length idx)) n_batches 0 false Hb Hn).
Qed.

(* two batchings of the same library agree with each other *)
Corollary batchings_agree {A B} (eval : A -> B) (rows : list A) (b1 b2 : Z) :
  rows <> [] -> 1 <= b1 -> 1 <= b2 -> run_file_path eval rows b1 = run_file_path eval rows b2.
Proof. intros. rewrite !batching_invariant by assumption. reflexivity. Qed.
