(* The per-sample prelude of the GENERATED batch functions (Gen/KernelPyx.v): what state the worker is called on. *)
From Coq Require Import ZArith List Bool Arith Lia.
From TJ Require Import Base.Imp Base.Fops Gen.KernelPyx Proofs.KernelChar.
Open Scope Z_scope.

Section Prelude.
Context {F : Type} (fo : fops F) (orc : oracles F).
Variables (nt nl : nat) (fk : Z) (sK0 P0 mK t0 : F).
Notation NT := (Z.of_nat nt).
Notation NL := (Z.of_nat nl).
Notation st := (kst (F := F)).

(* the K-prior variance rule of the default prior: min(max_K^2, sigma_K0^2 / (1 - e^2) * (P/P0)^(-2/3)) *)
Definition K_var_rule (P e : F) : F :=
  fmin fo (fmul fo mK mK) (fmul fo (fdiv fo (fmul fo sK0 sK0) (fsub fo (fz fo 1) (fmul fo e e))) (fpow_m23 fo (fdiv fo P P0))).

Definition prelude_state (row : arr1 F) (s : st) : st :=
  let P := row 0%nat in let e := row 1%nat in let om := row 2%nat in let M0 := row 3%nat in
  let s := set_l_M0 M0 (set_l_om om (set_l_e e (set_l_P P s))) in
  let s := set_v_M_T (fun i j => if Nat.eqb i 0 && Nat.ltb j nt then o_kepler orc P (fz fo 1) e om M0 t0 j else v_M_T s i j) s in
  let s := set_v_s_ivar (get_ivar fo NT (v_ivar s) (row 4%nat) (v_s_ivar s)) s in
  if fk =? 0 then set_v_Lambda (upd1 (upd1 (v_Lambda s) 0 (fmul fo (fdiv fo (fmul fo sK0 sK0) (fsub fo (fz fo 1) (fmul fo e e))) (fpow_m23 fo (fdiv fo P P0))))
                                      0 (K_var_rule P e)) s
  else s.

(* marginal and posterior entry points: the worker runs on exactly this state *)
Lemma marginal_one_prelude row s :
  k_marginal_one fo orc NT NL fk sK0 P0 mK t0 row s = likelihood_worker fo orc NT NL 0 (prelude_state row s).
Proof.
  unfold k_marginal_one, marginal_one, prelude_state, K_var_rule. rewrite !Nat2Z.id. cbn [Z.to_nat Pos.to_nat Pos.iter_op Nat.add].
  destruct (fk =? 0); [|reflexivity]. cbv zeta. autorewrite with kst. rewrite upd1_same. reflexivity.
Qed.
Lemma posterior_one_prelude row s :
  k_posterior_one fo orc NT NL fk sK0 P0 mK t0 row s = likelihood_worker fo orc NT NL 1 (prelude_state row s).
Proof.
  unfold k_posterior_one, posterior_one, prelude_state, K_var_rule. rewrite !Nat2Z.id. cbn [Z.to_nat Pos.to_nat Pos.iter_op Nat.add].
  destruct (fk =? 0); [|reflexivity]. cbv zeta. autorewrite with kst. rewrite upd1_same. reflexivity.
Qed.

(* what the worker then reads *)
Lemma prelude_M_T row s i n :
  v_M_T (prelude_state row s) i n
  = if Nat.eqb i 0 && Nat.ltb n nt then o_kepler orc (row 0%nat) (fz fo 1) (row 1%nat) (row 2%nat) (row 3%nat) t0 n else v_M_T s i n.
Proof. unfold prelude_state. cbv zeta. destruct (fk =? 0); autorewrite with kst; reflexivity. Qed.
Lemma prelude_s_ivar row s n :
  v_s_ivar (prelude_state row s) n = if (Z.of_nat n <? NT) then jittered fo (v_ivar s) (row 4%nat) n else v_s_ivar s n.
Proof.
  unfold prelude_state. cbv zeta. destruct (fk =? 0); autorewrite with kst; apply get_ivar_char; lia.
Qed.
Lemma prelude_Lambda row s i :
  v_Lambda (prelude_state row s) i
  = if (fk =? 0) && Nat.eqb i 0 then K_var_rule (row 0%nat) (row 1%nat) else v_Lambda s i.
Proof.
  unfold prelude_state. cbv zeta. destruct (fk =? 0); autorewrite with kst; cbn [andb]; [|reflexivity].
  unfold upd1. destruct (Nat.eqb i 0); reflexivity.
Qed.
Lemma prelude_mu row s : v_mu (prelude_state row s) = v_mu s.
Proof. unfold prelude_state. cbv zeta. destruct (fk =? 0); autorewrite with kst; reflexivity. Qed.
Lemma prelude_rv row s : v_rv (prelude_state row s) = v_rv s.
Proof. unfold prelude_state. cbv zeta. destruct (fk =? 0); autorewrite with kst; reflexivity. Qed.
End Prelude.
