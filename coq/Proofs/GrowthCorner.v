(* C14 -- the next-batch estimate of the iterative sampler, int(safety_factor * n_need / n_good * n_ll_evals).
   Over the rationals it is at least 1 whenever samples are still missing (n_need >= 1), the rule accepted at most what was
   evaluated (1 <= n_good <= n_evals) and safety_factor >= 1: the loop cannot stall for a mathematical reason.
   In IEEE binary64, evaluated left to right as Python does, it is 0 for safety_factor = 1, n_need = 1, n_good = n_evals = 49:
   (1/49)*49 rounds to 1 - 2^-53.  (Coq's primitive floats are binary64 with round-to-nearest-even.) *)
From Coq Require Import QArith Lqa ZArith Lia.
From Coq Require Import PrimFloat Uint63.

Lemma growth_estimate_ge_1 (safety n_need n_good n_evals : Z) :
  (1 <= safety)%Z -> (1 <= n_need)%Z -> (1 <= n_good)%Z -> (n_good <= n_evals)%Z ->
  (1 <= inject_Z safety * inject_Z n_need / inject_Z n_good * inject_Z n_evals)%Q.
Proof.
  intros Hs Hn Hg He.
  assert (G : (0 < inject_Z n_good)%Q) by (change 0%Q with (inject_Z 0); rewrite <- Zlt_Qlt; lia).
  assert (E : (inject_Z n_good <= inject_Z n_evals)%Q) by (rewrite <- Zle_Qle; exact He).
  assert (S1 : (1 <= inject_Z safety)%Q) by (change 1%Q with (inject_Z 1); rewrite <- Zle_Qle; exact Hs).
  assert (N1 : (1 <= inject_Z n_need)%Q) by (change 1%Q with (inject_Z 1); rewrite <- Zle_Qle; exact Hn).
  assert (P : (1 <= inject_Z safety * inject_Z n_need)%Q) by nra.
  (* s*n/g*e >= 1  <=>  s*n*e >= g *)
  apply (Qmult_le_r _ _ (inject_Z n_good) G).
  setoid_replace (inject_Z safety * inject_Z n_need / inject_Z n_good * inject_Z n_evals * inject_Z n_good)%Q
    with (inject_Z safety * inject_Z n_need * inject_Z n_evals)%Q by (field; lra).
  nra.
Qed.

(* ... and in binary64 it is not: the product is strictly below 1, so int() gives 0 *)
Example growth_estimate_float_corner :
  let est := PrimFloat.mul (PrimFloat.div (PrimFloat.mul (of_uint63 1) (of_uint63 1)) (of_uint63 49)) (of_uint63 49) in
  PrimFloat.ltb est (of_uint63 1) = true /\ PrimFloat.leb (of_uint63 0) est = true.
Proof. vm_compute. split; reflexivity. Qed.
