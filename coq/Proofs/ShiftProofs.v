(* C07 -- the rejection step depends on the log-likelihoods only through their differences: adding one constant to every
   value (the Jacobian constant of a change of data unit) leaves the accepted set unchanged.  Model/Reject.v. *)
From Coq Require Import QArith List Bool Arith Lia.
From TJ Require Import Base.XQ Model.Reject.
Import ListNotations.

Section Shift.
Variable dec : Q -> Q -> option bool.
(* the decision oracle depends on the VALUE of the difference, not on how the rational is written *)
Hypothesis dec_proper : forall d d' u, d == d' -> dec d u = dec d' u.
Variable k : Q.
Definition xshift (x : XQ) : XQ := xq_add x (XFin k).

Lemma Qle_bool_shift a b : Qle_bool (a + k) (b + k) = Qle_bool a b.
Proof.
  destruct (Qle_bool a b) eqn:E.
  - apply Qle_bool_iff. apply Qle_bool_iff in E. apply Qplus_le_compat; [exact E|apply Qle_refl].
  - destruct (Qle_bool (a + k) (b + k)) eqn:E2; [|reflexivity].
    apply Qle_bool_iff in E2. assert (H : a <= b).
    { apply (Qplus_le_l _ _ k). exact E2. }
    apply Qle_bool_iff in H. congruence.
Qed.

Lemma xq_leb_shift a b : xq_leb (xshift a) (xshift b) = xq_leb a b.
Proof. destruct a, b; cbn; try reflexivity. apply Qle_bool_shift. Qed.

Lemma xq_max_shift a b : xq_max (xshift a) (xshift b) = xshift (xq_max a b).
Proof.
  destruct a as [p| | |], b as [q| | |]; cbn; try reflexivity.
  rewrite Qle_bool_shift. destruct (Qle_bool p q); reflexivity.
Qed.

Lemma fold_max_shift l x : fold_left xq_max (map xshift l) (xshift x) = xshift (fold_left xq_max l x).
Proof. revert x. induction l as [|y l IH]; intros x; cbn; [reflexivity|]. rewrite xq_max_shift. apply IH. Qed.

Lemma xmaxl_shift l : xmaxl (map xshift l) = xshift (xmaxl l).
Proof. destruct l as [|x l]; cbn; [reflexivity|]. apply fold_max_shift. Qed.

Lemma accept1_shift m ll u : accept1 dec (xshift m) (xshift ll) u = accept1 dec m ll u.
Proof.
  unfold accept1. destruct m as [p| | |], ll as [q| | |]; cbn; try reflexivity.
  apply dec_proper. ring.
Qed.

Lemma accept_from_shift m : forall lls us i, accept_from dec i (xshift m) (map xshift lls) us = accept_from dec i m lls us.
Proof.
  induction lls as [|ll lls IH]; intros [|u us] i; cbn; try reflexivity.
  rewrite accept1_shift, IH. reflexivity.
Qed.

Theorem accept_idx_shift lls us : accept_idx dec (map xshift lls) us = accept_idx dec lls us.
Proof. unfold accept_idx. rewrite xmaxl_shift. apply accept_from_shift. Qed.
End Shift.
