(* write_table_hdf5 as regenerated from the source (Gen/WriteGen.v: control flow over the two datasets of a samples file) refines
   the table-level model Model/Store.v `write`: on every well-formed file (table and serialized header both present, or no file)
   and for every flag combination, the file afterwards is well-formed, denotes the table the model says, and the outcome is the
   model's outcome -- never an undocumented exception.  The pre-repair code (finding D14) is shown NOT to have this property. *)
From Coq Require Import List Bool.
From TJ Require Import Base.XQ Model.Store Gen.WriteGen.
Import ListNotations.

(* which table a file denotes; None = no file (or not a samples file) *)
Definition abs (f : fstate) : store :=
  match f with
  | Some (mk_h5 (Some rows) (Some (hdr, m))) => Some (mk_tbl hdr m rows)
  | _ => None
  end.
Definition wf (f : fstate) : Prop :=
  match f with
  | None => True
  | Some (mk_h5 (Some _) (Some _)) => True
  | Some _ => False
  end.
Definition to_wres (r : gres) : option wres :=
  match r with GOk => Some WOk | GExists => Some WExists | GIncompatible => Some WIncompatible | GCrash => None end.

Lemma tbl_eta t : mk_tbl (t_hdr t) (t_meta t) (t_rows t) = t.
Proof. destruct t; reflexivity. Qed.

Lemma write_gen_refines ow app t f : wf f ->
  wf (fst (write_gen ow app t f)) /\
  abs (fst (write_gen ow app t f)) = fst (write ow app t (abs f)) /\
  to_wres (snd (write_gen ow app t f)) = Some (snd (write ow app t (abs f))).
Proof.
  intros Hwf. destruct f as [[[rows|] [[hdr m]|]]|]; cbn in Hwf; try contradiction.
  - (* an existing samples file *)
    destruct app, ow; cbn -[hdr_eqb meta_eqb]; rewrite ?tbl_eta.
    + repeat split.
    + destruct (meta_eqb m (t_meta t)) eqn:Em, (hdr_eqb hdr (t_hdr t)) eqn:Eh; cbn -[hdr_eqb meta_eqb]; repeat split.
    + repeat split.
    + repeat split.
  - (* no file yet: every flag combination creates it *)
    destruct app, ow; cbn; rewrite ?tbl_eta; repeat split.
Qed.

(* finding D14: the code before the repair deleted the table but not its serialized header *)
Definition group_level_unfixed (app ow : bool) (t : tbl) (g : h5) : fstate * gres :=
  match h_tbl g with
  | Some rows =>
      if app && ow then create_gen t (mk_h5 None (h_meta g))
      else group_level_gen app ow t g
  | None => create_gen t g
  end.
Lemma d14_unfixed_crashes t rows hdr m :
  group_level_unfixed true true t (mk_h5 (Some rows) (Some (hdr, m))) = (Some (mk_h5 (Some (t_rows t)) (Some (hdr, m))), GCrash).
Proof. reflexivity. Qed.
