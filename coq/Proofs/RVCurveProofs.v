From Coq Require Import QArith List Arith Lia Setoid.
From TJ Require Import Model.RVCurve.
Import ListNotations.
Open Scope Q_scope.

Lemma qdot_nil_l b : qdot [] b = 0. Proof. reflexivity. Qed.
Lemma qdot_cons x a y b : qdot (x :: a) (y :: b) = x * y + qdot a b. Proof. reflexivity. Qed.
Lemma qdot_app a1 a2 b1 b2 : length a1 = length b1 -> qdot (a1 ++ a2) (b1 ++ b2) == qdot a1 b1 + qdot a2 b2.
Proof.
  revert b1. induction a1 as [|x a1 IH]; intros [|y b1] Hl; try discriminate; cbn [app].
  - rewrite qdot_nil_l. ring.
  - rewrite !qdot_cons, IH by (cbn in Hl; lia). ring.
Qed.

(* the indicator columns pick the observation's own survey offset *)
Lemma qdot_indicators_from : forall offs s sid,
  qdot (map (fun k => if Nat.eqb sid k then 1 else 0) (seq s (length offs))) offs ==
  if (s <=? sid)%nat && (sid <? s + length offs)%nat then nth (sid - s) offs 0 else 0.
Proof.
  induction offs as [|o offs IH]; intros s sid; cbn [length seq map].
  - rewrite qdot_nil_l. destruct ((s <=? sid)%nat && (sid <? s + 0)%nat) eqn:E; [|reflexivity].
    apply andb_prop in E. destruct E as [E1 E2]. apply Nat.leb_le in E1. apply Nat.ltb_lt in E2. lia.
  - rewrite qdot_cons, IH.
    destruct (Nat.eqb sid s) eqn:Es.
    + apply Nat.eqb_eq in Es. subst sid.
      replace ((S s <=? s)%nat) with false by (symmetry; apply Nat.leb_gt; lia).
      replace ((s <=? s)%nat) with true by (symmetry; apply Nat.leb_le; lia).
      replace ((s <? s + S (length offs))%nat) with true by (symmetry; apply Nat.ltb_lt; lia).
      cbn [andb]. replace (s - s)%nat with O by lia. cbn [nth]. ring.
    + apply Nat.eqb_neq in Es.
      destruct (Nat.leb_spec s sid) as [H1|H1]; destruct (Nat.leb_spec (S s) sid) as [H2|H2]; try lia; cbn [andb].
      * destruct (Nat.ltb_spec sid (S s + length offs)) as [H3|H3]; destruct (Nat.ltb_spec sid (s + S (length offs))) as [H4|H4]; try lia.
        -- replace (sid - s)%nat with (S (sid - S s)) by lia. cbn [nth]. ring.
        -- ring.
      * ring.
Qed.

Lemma qdot_indicators offs sid : qdot (indicators (length offs) sid) offs == if (sid <=? length offs)%nat then survey_offset offs sid else 0.
Proof.
  unfold indicators. rewrite qdot_indicators_from.
  destruct sid as [|k]; cbn [survey_offset].
  - cbn. destruct (length offs); reflexivity.
  - replace ((1 <=? S k)%nat) with true by reflexivity. cbn [andb].
    destruct (Nat.ltb_spec (S k) (1 + length offs)) as [H|H]; destruct (Nat.leb_spec (S k) (length offs)) as [H'|H']; try lia; try reflexivity.
    replace (S k - 1)%nat with k by lia. reflexivity.
Qed.

(* the power columns against (v_s, v_s+1, ...) are dt^s times the Horner value *)
Lemma qdot_powers : forall vs dt s, qdot (powers_from dt s (length vs)) vs == qpow dt s * polyval vs dt.
Proof.
  induction vs as [|v vs IH]; intros dt s; cbn [length]; unfold powers_from; cbn [seq map].
  - rewrite qdot_nil_l. unfold polyval. cbn [fold_right]. ring.
  - rewrite qdot_cons. fold (powers_from dt (S s) (length vs)). rewrite IH. cbn [qpow].
    change (polyval (v :: vs) dt) with (v + dt * polyval vs dt). ring.
Qed.

Section Curve.
Variable g : Q -> Q -> Q -> Q.
Variable twopi : Q.

(* with the samples' reference epoch equal to the data's, the orbit a row reconstructs is the sampler's model of the
   reference survey; an observation of survey k >= 1 additionally carries its own offset dv0_k *)
Theorem rv_same_curve P e om M0 K v0 offs vs poly sid t t_ref :
  length vs = (poly - 1)%nat -> (sid <= length offs)%nat ->
  rv_kernel g twopi P e om M0 K v0 offs vs poly sid t t_ref ==
  rv_orbit g twopi P e om M0 K v0 vs t t_ref + survey_offset offs sid.
Proof.
  intros Hvs Hsid. unfold rv_kernel, rv_orbit, trend_row.
  rewrite qdot_cons, qdot_app by (unfold indicators; rewrite map_length, seq_length; reflexivity).
  rewrite qdot_indicators. rewrite <- Hvs, qdot_powers.
  replace ((sid <=? length offs)%nat) with true by (symmetry; apply Nat.leb_le; exact Hsid).
  change (polyval (v0 :: vs) (t - t_ref)) with (v0 + (t - t_ref) * polyval vs (t - t_ref)). cbn [qpow]. ring.
Qed.
End Curve.
