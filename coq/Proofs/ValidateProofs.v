(* C18 -- the accept set of the validators is exactly the set of well-formed priors / data. *)
From Coq Require Import List Bool Arith Lia.
From TJ Require Import Model.Validate.
Import ListNotations.

Lemma first_err_none {A} (f : A -> option verr) l : first_err f l = None <-> forall x, In x l -> f x = None.
Proof.
  induction l as [|a l IH]; cbn; [split; [intros _ x []|reflexivity]|].
  destruct (f a) eqn:E.
  - split; [discriminate|]. intros H. specialize (H a (or_introl eq_refl)). congruence.
  - rewrite IH. split.
    + intros H x [<-|Hx]; [exact E|apply H, Hx].
    + intros H x Hx. apply H. right. exact Hx.
Qed.

(* what "well-formed" means, stated independently of the validator *)
Definition present_ok (decls : list decl) (r : nat * dim) : Prop :=
  exists d, lookup decls (fst r) = Some d /\ d_has_unit d = true /\ dim_eqb (d_dim d) (snd r) = true.
Definition normal_ok (decls : list decl) (r : nat * dim) : Prop :=
  forall d, lookup decls (fst r) = Some d -> normal_family (d_kind d) = true.

Lemma check_presence_none decls r : check_presence decls r = None <-> present_ok decls r.
Proof.
  unfold check_presence, present_ok. destruct (lookup decls (fst r)) as [d|].
  - destruct (d_has_unit d) eqn:E1; cbn [negb].
    + destruct (dim_eqb (d_dim d) (snd r)) eqn:E2; cbn [negb].
      * split; [intros _; exists d; auto|reflexivity].
      * split; [discriminate|]. intros (d' & H & _ & H2). injection H as <-. congruence.
    + split; [discriminate|]. intros (d' & H & H1 & _). injection H as <-. congruence.
  - split; [discriminate|]. intros (d' & H & _). discriminate.
Qed.
Lemma check_normal_none decls r : check_normal decls r = None <-> normal_ok decls r.
Proof.
  unfold check_normal, normal_ok. destruct (lookup decls (fst r)) as [d|].
  - destruct (normal_family (d_kind d)) eqn:E.
    + split; [intros _ d' H; injection H as <-; exact E|reflexivity].
    + split; [discriminate|]. intros H. specialize (H d eq_refl). congruence.
  - split; [intros _ d H; discriminate|reflexivity].
Qed.

(* soundness AND completeness: the prior is accepted iff every required parameter is present with a convertible
   unit and every linear / offset parameter has a Normal-family prior *)
Theorem validate_prior_exact decls poly noff :
  validate_prior decls poly noff = VOk <->
  (forall r, In r (required poly noff) -> present_ok decls r) /\
  (forall r, In r (linear_req poly ++ offset_req noff) -> normal_ok decls r).
Proof.
  unfold validate_prior.
  destruct (first_err (check_presence decls) (required poly noff)) as [e|] eqn:E1.
  - split; [discriminate|]. intros [H _].
    assert (first_err (check_presence decls) (required poly noff) = None).
    { apply first_err_none. intros x Hx. apply check_presence_none, H, Hx. }
    congruence.
  - rewrite first_err_none in E1.
    destruct (first_err (check_normal decls) (linear_req poly ++ offset_req noff)) as [e|] eqn:E2.
    + split; [discriminate|]. intros [_ H].
      assert (first_err (check_normal decls) (linear_req poly ++ offset_req noff) = None).
      { apply first_err_none. intros x Hx. apply check_normal_none, H, Hx. }
      congruence.
    + rewrite first_err_none in E2. split; [intros _|reflexivity]. split.
      * intros r Hr. apply check_presence_none, E1, Hr.
      * intros r Hr. apply check_normal_none, E2, Hr.
Qed.

(* accepted priors list parameters in the order nonlinear, linear, offsets *)
Lemma par_names_order poly noff :
  par_names poly noff = [nP; ne; nomega; nM0; ns] ++ (nK :: map nv (seq 0 poly)) ++ map ndv (seq 1 noff).
Proof.
  unfold par_names, required, linear_req, offset_req. rewrite !map_app. cbn [map fst nonlinear_req].
  rewrite !map_map. reflexivity.
Qed.

(* ---- data ---- *)
Lemma first_bad_none srcs : first_bad srcs = None <-> Forall (fun s => s = SrcRV false) srcs.
Proof.
  induction srcs as [|s r IH]; cbn; [split; [constructor|reflexivity]|].
  destruct s as [[|]|].
  - split; [discriminate|]. intros H. inversion H; discriminate.
  - rewrite IH. split; [intros H; constructor; [reflexivity|exact H]|intros H; inversion H; assumption].
  - split; [discriminate|]. intros H. inversion H; discriminate.
Qed.

Theorem validate_data_exact d noff :
  validate_data d noff = DOk <->
  (d = Single (SrcRV false) /\ noff = 0) \/
  (exists srcs, d = Many srcs /\ Forall (fun s => s = SrcRV false) srcs /\ length srcs = S noff).
Proof.
  destruct d as [s|srcs]; cbn [validate_data].
  - destruct s as [c|].
    + destruct (Nat.eqb noff 0) eqn:E; cbn [negb].
      * apply Nat.eqb_eq in E. destruct c.
        -- split; [discriminate|]. intros [[H _]|(srcs & H & _)]; discriminate.
        -- split; [intros _; left; auto|reflexivity].
      * apply Nat.eqb_neq in E. split; [discriminate|]. intros [[_ H]|(srcs & H & _)]; [lia|discriminate].
    + split; [discriminate|]. intros [[H _]|(srcs & H & _)]; discriminate.
  - destruct srcs as [|s0 r].
    + split; [discriminate|]. intros [[H _]|(srcs & H & _ & Hl)]; [discriminate|]. injection H as <-. cbn in Hl. lia.
    + destruct (first_bad (s0 :: r)) as [e|] eqn:E.
      * split; [discriminate|]. intros [[H _]|(srcs & H & Hall & _)]; [discriminate|]. injection H as <-.
        apply first_bad_none in Hall. congruence.
      * apply first_bad_none in E. destruct (Nat.eqb (length (s0 :: r) - 1) noff) eqn:El.
        -- apply Nat.eqb_eq in El. split; [intros _; right; exists (s0 :: r); repeat split; [exact E|cbn in *; lia]|reflexivity].
        -- apply Nat.eqb_neq in El. split; [discriminate|]. intros [[H _]|(srcs & H & _ & Hl)]; [discriminate|].
           injection H as <-. cbn in *. lia.
Qed.
