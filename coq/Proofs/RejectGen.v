(* C02 / C06 / C14 -- the four rejection sites GENERATED from the source (Gen/RejectSites.v) are the model of Model/Reject.v:
   the theorems of Proofs/RejectProofs.v, LogprobProofs.v and IterProofs.v therefore speak about the code's own expressions. *)
From Coq Require Import QArith Qreals List Bool Arith Sorted.
From TJ Require Import Base.XQ Base.Corr Base.RealEnc Model.Reject Model.NpOps Gen.RejectSites Proofs.RejectProofs.
Import ListNotations.

Section Gen.
Variable dec : Q -> Q -> option bool.

(* good_samples_idx: the rule, then the truncation -- identical at the four sites *)
Lemma sites_good lls us bound :
  inmem_good dec lls us bound = good_idx dec lls us bound /\ iter_inmem_good dec lls us bound = good_idx dec lls us bound /\
  file_good dec lls us bound = good_idx dec lls us bound /\ iter_file_good dec lls us bound = good_idx dec lls us bound.
Proof. repeat split; reflexivity. Qed.

(* the rows whose linear parameters are generated are the library rows of the accepted positions *)
Lemma sites_rows good :
  (forall order, inmem_rows order good = full_idx None good) /\
  (forall order, iter_inmem_rows order good = full_idx (Some order) good) /\
  (forall order, file_rows order good = full_idx order good) /\
  (forall order, iter_file_rows order good = full_idx (Some order) good).
Proof. repeat split; intros order; reflexivity. Qed.

(* ln_likelihood: the value at the accepted evaluation position; ln_prior: the library value of the accepted row *)
Lemma sites_lnlike n lls good :
  (forall order, inmem_lnlike n lls order good = ln_like_col n lls good) /\
  (forall order, iter_inmem_lnlike n lls order good = ln_like_col n lls good) /\
  (forall order, file_lnlike n lls order good = ln_like_col n lls good) /\
  (forall order, iter_file_lnlike n lls order good = ln_like_col n lls good).
Proof. repeat split; reflexivity. Qed.
Lemma sites_lnprior n lib good :
  (forall order, inmem_lnprior n lib order good = ln_prior_col n lib (full_idx None good)) /\
  (forall order, iter_inmem_lnprior n lib order good = ln_prior_col n lib (full_idx (Some order) good)) /\
  (forall order, file_lnprior n lib order good = ln_prior_col n lib (full_idx order good)) /\
  (forall order, iter_file_lnprior n lib order good = ln_prior_col n lib (full_idx (Some order) good)).
Proof. repeat split; intros order; reflexivity. Qed.
End Gen.

Lemma in_firstn {A} (x : A) n l : In x (firstn n l) -> In x l.
Proof. revert l. induction n as [|n IH]; intros [|a l]; cbn; try tauto. intros [->|H]; [left; reflexivity|right; apply IH, H]. Qed.
Lemma Forall_firstn {A} (P : A -> Prop) n l : Forall P l -> Forall P (firstn n l).
Proof. intros H. revert n. induction H as [|a l Ha Hl IH]; intros [|n]; cbn; constructor; auto. Qed.
Lemma sorted_firstn n (l : list nat) : StronglySorted lt l -> StronglySorted lt (firstn n l).
Proof.
  intros H. revert n. induction H as [|a l Hs IH Hall]; intros [|n]; cbn; try constructor; [apply IH|apply Forall_firstn, Hall].
Qed.

(* end to end on the generated expression: every position the code keeps satisfies the real-number rule, in evaluation order *)
Theorem generated_rule prec lls us bound r :
  Forall (fun u => 0 <= u) us ->
  file_good (dec_exp prec) lls us bound = Some r ->
  length lls = length us /\ StronglySorted lt r /\
  forall i, In i r -> (i < length lls)%nat /\ rule (xmaxl lls) (nth i lls XNaN) (nth i us 0).
Proof.
  intros Hus H. unfold file_good, np_prefix, np_where_level_gt in H.
  destruct (accept_idx (dec_exp prec) lls us) as [r0|] eqn:E; [|discriminate]. cbn in H. injection H as <-.
  destruct (accept_idx_spec (dec_exp prec) (dec_exp_sound prec) lls us r0 Hus E) as [Hlen [Hin Hs]].
  split; [exact Hlen|]. split; [apply sorted_firstn, Hs|].
  intros i Hi. apply Hin. exact (in_firstn i bound r0 Hi).
Qed.
