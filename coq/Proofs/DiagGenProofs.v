(* C19 -- the diagnostics as generated from the source (Gen/DiagGen.v) are the model of Model/Diagnostics.v. *)
From Coq Require Import QArith Qround ZArith List Bool Arith Lia.
From TJ Require Import Base.Corr Base.XQ Base.ArgMax Model.Diagnostics Model.NpDiag Gen.DiagGen Proofs.DiagProofs.
Import ListNotations.
Open Scope Q_scope.

Lemma phase_gen_eq tref P t : phase_gen tref P t = phase tref P t.
Proof. reflexivity. Qed.

(* phase[1:] - phase[:-1] is the list of consecutive differences *)
Lemma np_sub_diffs l : np_sub (skipn 1 l) (removelast l) = diffs l.
Proof.
  induction l as [|a l IH]; [reflexivity|]. destruct l as [|b l]; [reflexivity|].
  cbn [skipn removelast np_sub diffs] in *. f_equal. exact IH.
Qed.

Lemma max_phase_gap_gen_eq tref P ts : max_phase_gap_gen tref P ts = max_phase_gap tref P ts.
Proof.
  unfold max_phase_gap_gen, max_phase_gap, np_max, np_sort. cbv zeta.
  rewrite (map_ext _ _ (phase_gen_eq tref P)). rewrite np_sub_diffs.
  unfold gaps. destruct (qsort (map (phase tref P) ts)) as [|p0 r]; reflexivity.
Qed.

(* (H > 0).sum(): the number of bins holding at least one phase *)
Lemma count_pos_exists (f : Q -> bool) ph : Nat.ltb 0 (length (filter f ph)) = existsb f ph.
Proof. induction ph as [|p ph IH]; [reflexivity|]. cbn [filter existsb]. destruct (f p); [reflexivity|exact IH]. Qed.
Lemma occupied_hist n ph : length (filter (fun h => Nat.ltb 0 h) (np_histogram01 n ph)) = occupied n ph.
Proof.
  unfold np_histogram01, occupied. induction (seq 0 n) as [|k l IH]; [reflexivity|]. cbn [map filter].
  rewrite count_pos_exists. destruct (existsb (in_bin n k) ph); cbn [length]; rewrite IH; reflexivity.
Qed.

Lemma phase_coverage_gen_eq tref P n ts : phase_coverage_gen tref P n ts = phase_coverage tref P n ts.
Proof.
  unfold phase_coverage_gen, phase_coverage. cbv zeta. rewrite (map_ext _ _ (phase_gen_eq tref P)), occupied_hist. reflexivity.
Qed.

Lemma periods_spanned_gen_eq P ts : periods_spanned_gen P ts = periods_spanned P ts.
Proof. reflexivity. Qed.
Lemma map_index_gen_eq lp ll : map_index_gen lp ll = map_index lp ll.
Proof. reflexivity. Qed.
