(* The Bayes identity between the four Gaussian log-densities, over the reals (C04). *)
From Coq Require Import Reals Lra.
Open Scope R_scope.

(* ln N with quadratic form chi2 and covariance determinant det in dimension n *)
Definition lnN (n : nat) (chi2 det : R) : R := - (1 / 2) * (chi2 + INR n * ln (2 * PI) + ln det).

Theorem bayes_identity (n k : nat) (q_marg q_lik q_prior q_post dB dC dL dA : R) :
  0 < dB -> 0 < dC -> 0 < dL -> 0 < dA ->
  q_lik + q_prior = q_post + q_marg ->        (* completing the square *)
  dB * dA = dC * dL ->                        (* determinant lemma *)
  lnN n q_marg dB = lnN n q_lik dC + lnN k q_prior dL - lnN k q_post dA.
Proof.
  intros HB HC HL HA Hq Hd. unfold lnN.
  assert (Hln : ln dB + ln dA = ln dC + ln dL) by (rewrite <- !ln_mult by assumption; rewrite Hd; reflexivity).
  generalize dependent (INR n * ln (2 * PI)). generalize dependent (INR k * ln (2 * PI)). intros X Y. lra.
Qed.

(* change of the velocity unit by the factor c > 0: chi^2 is unchanged and det B picks up c^(2n)  (the scale_ lemmas of KernelAlg),
   so the log-density moves by the Jacobian constant  - n ln c  *)
Theorem jacobian (n : nat) (chi2 det c : R) :
  0 < c -> 0 < det ->
  lnN n chi2 ((c ^ 2) ^ n * det) = lnN n chi2 det - INR n * ln c.
Proof.
  intros Hc Hd. unfold lnN.
  assert (Hp : 0 < (c ^ 2) ^ n) by (apply pow_lt; apply pow_lt; exact Hc).
  rewrite (ln_mult ((c ^ 2) ^ n) det) by assumption.
  assert (Hl : ln ((c ^ 2) ^ n) = 2 * INR n * ln c).
  { rewrite <- pow_mult. rewrite <- Rpower_pow by exact Hc. unfold Rpower. rewrite ln_exp. rewrite mult_INR. simpl INR. ring. }
  rewrite Hl.
  field.
Qed.
