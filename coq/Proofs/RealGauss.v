(* The Bayes identity between the four Gaussian log-densities, over the reals (C04). *)
From Coq Require Import Reals Lra.
Open Scope R_scope.

(* ln N with quadratic form chi2 and covariance determinant det in dimension n *)
Definition lnN (n : nat) (chi2 det : R) : R := - (1 / 2) * (chi2 + INR n * ln (2 * PI) + ln det).

Theorem bayes_identity (n k : nat) (q_marg q_lik q_prior q_post dB dC dL dA : R) :
  0 < dB -> 0 < dC -> 0 < dL -> 0 < dA ->
  q_lik + q_prior = q_post + q_marg ->        (* completing the square *)
  dB * dA = dC * dL ->                        (* determinant lemma *)
  lnN n q_marg dB = lnN n q_lik dC + lnN k q_prior dL - lnN k q_post dA.
Proof.
  intros HB HC HL HA Hq Hd. unfold lnN.
  assert (Hln : ln dB + ln dA = ln dC + ln dL) by (rewrite <- !ln_mult by assumption; rewrite Hd; reflexivity).
  generalize dependent (INR n * ln (2 * PI)). generalize dependent (INR k * ln (2 * PI)). intros X Y. lra.
Qed.
