(* wrap_K and get_time_with_phase as regenerated from the source (Gen/SamplesGen.v), over Coq's reals. *)
From Coq Require Import Reals Lra ZArith.
From TJ Require Import Model.NpReal Gen.SamplesGen Proofs.TableProofs.
Open Scope R_scope.

(* a row with K >= 0 is returned as it is; a row with K < 0 gets -K > 0 and omega + pi reduced into [0, 2 pi) by whole turns;
   in both cases the RV curve K (cos(omega + f) + e cos omega) is the same function of the true anomaly f *)
Lemma wrap_K_row_gen_spec K w :
  let '(K', w') := wrap_K_row_gen K w in
  0 <= K' /\
  (0 <= K -> K' = K /\ w' = w) /\
  (K < 0 -> K' = - K /\ 0 <= w' < 2 * PI /\ exists n : Z, w' = w + PI - 2 * IZR n * PI) /\
  forall e f, K' * (cos (w' + f) + e * cos w') = K * (cos (w + f) + e * cos w).
Proof.
  unfold wrap_K_row_gen. destruct (Rlt_dec K 0) as [Hneg|Hpos].
  - assert (H2pi : 0 < 2 * PI) by (pose proof PI_RGT_0; lra).
    destruct (np_mod_shift (w + PI) (2 * PI)) as [n Hn].
    assert (Hw : np_mod (w + PI) (2 * PI) = w + PI - 2 * IZR n * PI) by (rewrite Hn; ring).
    rewrite (Rabs_left _ Hneg).
    split; [lra|]. split; [intros; lra|]. split.
    + intros _. split; [reflexivity|]. split; [apply np_mod_range; exact H2pi|]. exists n. exact Hw.
    + intros e f. rewrite Hw. apply (wrap_same_curve K w e f n).
  - split; [lra|]. split; [intros _; split; reflexivity|]. split; [intros; lra|]. intros; reflexivity.
Qed.

(* at the returned time the mean anomaly 2 pi (t - t_ref) / P - M0 equals the requested phase *)
Lemma time_with_phase_gen_spec t_ref P M0 phase : P <> 0 ->
  2 * PI * (time_with_phase_gen t_ref P M0 phase - t_ref) / P - M0 = phase.
Proof. intros HP. unfold time_with_phase_gen. cbv zeta. pose proof PI_neq0. field. split; assumption. Qed.
Lemma t0_gen_spec t_ref P M0 : P <> 0 -> 2 * PI * (t0_gen t_ref P M0 - t_ref) / P - M0 = 0.
Proof. intros HP. apply time_with_phase_gen_spec. exact HP. Qed.
