(* RVData.__init__ / ivar / copy / slicing as regenerated from the source (Gen/DataGen.v): for EVERY sorting permutation numpy's
   argsort may return, the stored observations are exactly the kept inputs, each with its own velocity and error, in time order. *)
From Coq Require Import QArith List Bool Arith Lia Permutation.
From TJ Require Import Base.XQ Base.Corr Model.RVData Model.NpData Gen.DataGen Proofs.RVDataProofs.
Import ListNotations.

Lemma np_mask_filter {A} (f : A -> bool) (l : list A) : np_mask (map f l) l = filter f l.
Proof. induction l as [|x l IH]; cbn; [reflexivity|]. destruct (f x); rewrite IH; reflexivity. Qed.

Lemma gather_seq {A} (d : A) (l : list A) : gather d (seq 0 (length l)) l = l.
Proof.
  unfold gather. induction l as [|x l IH] using rev_ind; [reflexivity|].
  rewrite app_length, Nat.add_1_r, seq_S, map_app. cbn [map Nat.add]. f_equal.
  - rewrite <- IH at 2. apply map_ext_in. intros k Hk. apply in_seq in Hk. rewrite app_nth1 by lia. reflexivity.
  - rewrite nth_middle. reflexivity.
Qed.
Lemma gather_perm {A} (d : A) idx (l : list A) : Permutation idx (seq 0 (length l)) -> Permutation (gather d idx l) l.
Proof. intros H. rewrite <- (gather_seq d l) at 2. unfold gather. apply Permutation_map. exact H. Qed.
Lemma gather_times idx l : map o_t (gather obs_d idx l) = gather XNaN idx (map o_t l).
Proof. unfold gather. rewrite map_map. apply map_ext. intros i. symmetry. apply (map_nth o_t l obs_d i). Qed.
Lemma sorted_t_x l : sorted_t l = sorted_x (map o_t l).
Proof. induction l as [|a [|b r] IH]; try reflexivity. cbn [sorted_t map sorted_x] in *. rewrite IH. reflexivity. Qed.

Section Init.
Variable argsort : list XQ -> list nat.
(* what is assumed of numpy's argsort: it returns each position once, and the times taken in that order ascend
   (-inf < finite < +inf < NaN); which of several equal times comes first is left open *)
Hypothesis argsort_perm : forall ts, Permutation (argsort ts) (seq 0 (length ts)).
Hypothesis argsort_sorts : forall ts, sorted_x (gather XNaN (argsort ts) ts) = true.

Lemma rvdata_init_gen_spec clean l :
  Permutation (rvdata_init_gen argsort clean l) (filter (keep clean) l) /\ sorted_t (rvdata_init_gen argsort clean l) = true.
Proof.
  unfold rvdata_init_gen. cbv zeta.
  set (l' := if clean then np_mask (map obs_finite l) l else l).
  assert (El : l' = filter (keep clean) l).
  { subst l'. destruct clean; unfold keep; cbn [negb orb]; [apply np_mask_filter|].
    clear. induction l as [|a l IH]; cbn; [reflexivity|]. f_equal. exact IH. }
  split.
  - rewrite <- El. apply gather_perm. rewrite <- (map_length o_t l'). apply argsort_perm.
  - rewrite sorted_t_x, gather_times. apply argsort_sorts.
Qed.

(* the generated constructor and the model hold the same observations (they can differ only in the order of equal times) *)
Lemma rvdata_init_gen_model clean l : Permutation (rvdata_init_gen argsort clean l) (rvdata_init clean l).
Proof.
  etransitivity; [apply rvdata_init_gen_spec|]. symmetry. apply model_meets_spec.
Qed.

(* copy(): clean=False, so nothing is dropped; the reference epoch is handed over (False when there is none) *)
Lemma copy_gen_spec l tref :
  Permutation (fst (copy_gen argsort l tref)) l /\ sorted_t (fst (copy_gen argsort l tref)) = true /\
  snd (copy_gen argsort l tref) = match tref with None => TrefFalse | Some q => TrefGiven q end.
Proof.
  unfold copy_gen. cbn [fst snd]. destruct (rvdata_init_gen_spec false l) as [Hp Hs].
  split; [|split; [exact Hs|reflexivity]]. rewrite Hp. rewrite filter_keep_false. reflexivity.
Qed.
(* data[sel]: exactly the selected observations *)
Lemma getitem_gen_spec sel l :
  Permutation (fst (getitem_gen argsort sel l)) (gather obs_d sel l) /\ sorted_t (fst (getitem_gen argsort sel l)) = true.
Proof.
  unfold getitem_gen. cbn [fst]. destruct (rvdata_init_gen_spec false (gather obs_d sel l)) as [Hp Hs].
  split; [|exact Hs]. rewrite Hp. rewrite filter_keep_false. reflexivity.
Qed.
End Init.

(* the default reference epoch, self.t.min(), is the first of the time-sorted epochs *)
Lemma leb_not_gtb a b : xq_leb a b = true -> xq_gtb a b = false.
Proof. destruct a, b; cbn; try reflexivity; try discriminate. intros ->. reflexivity. Qed.
Lemma fold_min_sorted r : forall x, sorted_x (x :: r) = true ->
  fold_left (fun m y => if xq_gtb m y then y else m) r x = x.
Proof.
  induction r as [|y r IH]; intros x Hs; [reflexivity|].
  cbn [fold_left]. cbn [sorted_x] in Hs. apply andb_true_iff in Hs. destruct Hs as [Hxy Hr].
  rewrite (leb_not_gtb _ _ Hxy). apply IH.
  destruct r as [|z r]; [reflexivity|]. cbn [sorted_x] in *. apply andb_true_iff in Hr. destruct Hr as [Hyz Hr].
  apply andb_true_iff. split; [|exact Hr]. eapply xq_leb_trans; eassumption.
Qed.
Lemma tref_gen_default ts : ts <> [] -> sorted_x ts = true -> existsb is_nan ts = false ->
  tref_gen TrefDefault ts = tref_of TrefDefault ts.
Proof.
  destruct ts as [|x r]; [congruence|]. intros _ Hs Hn. unfold tref_gen, tref_of, np_min. rewrite Hn.
  rewrite (fold_min_sorted r x Hs). reflexivity.
Qed.

(* ivar = 1 / rv_err^2 satisfies the certificate of the model exactly *)
Lemma ivar_gen_ok tol e : 0 <= tol -> ~ e == 0 -> ivar_ok tol (XFin e) (XFin (ivar_gen e)) = true.
Proof.
  intros Ht He. unfold ivar_ok, ivar_gen, Corr.approx_eqQ.
  assert (E : 1 / (e * e) * e * e == 1) by (field; exact He).
  change (Qle_bool 1 (Corr.Qabs' 1)) with true. cbv iota.
  apply Qle_bool_iff. unfold Corr.Qabs' at 1.
  destruct (Qle_bool 0 (1 - 1 / (e * e) * e * e)) eqn:Hs.
  - rewrite E. setoid_replace (1 - 1) with 0 by ring. change (Corr.Qabs' 1) with 1. rewrite Qmult_1_r. exact Ht.
  - rewrite E. setoid_replace (- (1 - 1)) with 0 by ring. change (Corr.Qabs' 1) with 1. rewrite Qmult_1_r. exact Ht.
Qed.
