(* Row layout of the posterior samples (C03): Model/KernelRun.v layout_rows. *)
From Coq Require Import QArith List Arith Lia.
From TJ Require Import Model.KernelRun.
Import ListNotations. Close Scope Q_scope. Open Scope nat_scope.

Lemma layout_cons t ts d ds : layout_rows (t :: ts) (d :: ds) = map (fun x => t ++ x) d ++ layout_rows ts ds.
Proof. reflexivity. Qed.

(* number of rows: n_linear_samples per accepted sample *)
Lemma layout_length nls : forall thetas draws,
  length thetas = length draws -> Forall (fun d => length d = nls) draws ->
  length (layout_rows thetas draws) = length thetas * nls.
Proof.
  induction thetas as [|t ts IH]; intros [|d ds] Hl Hf; try discriminate; [reflexivity|].
  rewrite layout_cons, app_length, map_length. inversion Hf as [|? ? Hd Hr]; subst.
  cbn [length]. rewrite IH by (cbn in Hl; auto; lia). lia.
Qed.

(* every output row is an unchanged copy of its sample's nonlinear parameters followed by one of that sample's draws *)
Lemma layout_sound : forall thetas draws row,
  In row (layout_rows thetas draws) ->
  exists n t ds d, nth_error thetas n = Some t /\ nth_error draws n = Some ds /\ In d ds /\ row = t ++ d.
Proof.
  induction thetas as [|t ts IH]; intros [|d ds] row Hin; try (cbn in Hin; contradiction).
  rewrite layout_cons in Hin. apply in_app_or in Hin. destruct Hin as [Hin|Hin].
  - apply in_map_iff in Hin. destruct Hin as [x [Hx Hi]]. exists 0, t, d, x. cbn. auto.
  - destruct (IH ds row Hin) as [n [t' [ds' [d' [H1 [H2 [H3 H4]]]]]]]. exists (S n), t', ds', d'. cbn. auto.
Qed.

(* ... and every draw of every sample is emitted *)
Lemma layout_complete : forall thetas draws n t ds d,
  nth_error thetas n = Some t -> nth_error draws n = Some ds -> In d ds -> In (t ++ d) (layout_rows thetas draws).
Proof.
  induction thetas as [|t0 ts IH]; intros [|d0 ds0] n t ds d H1 H2 H3; try (destruct n; discriminate).
  rewrite layout_cons. apply in_or_app. destruct n as [|n]; cbn in H1, H2.
  - injection H1 as <-. injection H2 as <-. left. apply in_map_iff. exists d. auto.
  - right. eapply IH; eauto.
Qed.

(* positional form: row n * nls + j is sample n with its j-th draw (rows of one sample are consecutive, in draw order) *)
Lemma layout_nth nls : forall thetas draws n j t ds d,
  Forall (fun x => length x = nls) draws ->
  nth_error thetas n = Some t -> nth_error draws n = Some ds -> nth_error ds j = Some d ->
  nth_error (layout_rows thetas draws) (n * nls + j) = Some (t ++ d).
Proof.
  induction thetas as [|t0 ts IH]; intros [|d0 ds0] n j t ds d Hf H1 H2 H3; try (destruct n; discriminate).
  rewrite layout_cons. inversion Hf as [|? ? Hd Hr]; subst. destruct n as [|n]; cbn in H1, H2.
  - injection H1 as <-. injection H2 as <-. cbn [Nat.mul Nat.add].
    rewrite nth_error_app1 by (rewrite map_length; apply nth_error_Some; congruence).
    rewrite nth_error_map, H3. reflexivity.
  - rewrite nth_error_app2 by (rewrite map_length; lia).
    rewrite map_length. replace (S n * length d0 + j - length d0) with (n * length d0 + j) by lia.
    eapply IH; eauto.
Qed.
