(* C19 -- proofs about the diagnostics model. *)
From Coq Require Import QArith Qround ZArith List Bool Arith Lia Lqa Permutation.
From TJ Require Import Base.Corr Base.XQ Base.ArgMax Model.Diagnostics.
Import ListNotations.
Open Scope Q_scope.

(* ---- phases lie in [0,1) ---- *)
Lemma qfrac_range q : 0 <= qfrac q /\ qfrac q < 1.
Proof.
  unfold qfrac. pose proof (Qfloor_le q). pose proof (Qlt_floor q).
  rewrite inject_Z_plus in H0. change (inject_Z 1) with 1 in H0. split; lra.
Qed.
Lemma phase_range tref P t : 0 <= phase tref P t /\ phase tref P t < 1.
Proof. unfold phase. rewrite Qred_correct. apply qfrac_range. Qed.
Lemma phase_value tref P t : phase tref P t == qfrac ((t - tref) / P).
Proof. apply Qred_correct. Qed.

(* ---- insertion sort ---- *)
Fixpoint qsorted (l : list Q) : Prop :=
  match l with
  | a :: ((b :: _) as r) => a <= b /\ qsorted r
  | _ => True
  end.

Lemma qinsert_perm x l : Permutation (qinsert x l) (x :: l).
Proof.
  induction l as [|h r IH]; cbn; [reflexivity|].
  destruct (Qle_bool x h); [reflexivity|]. rewrite IH. apply perm_swap.
Qed.
Lemma qsort_perm l : Permutation (qsort l) l.
Proof. induction l as [|a l IH]; cbn; [reflexivity|]. rewrite qinsert_perm. constructor. exact IH. Qed.

Lemma Qle_bool_false a b : Qle_bool a b = false -> b <= a.
Proof.
  intros H. destruct (Qlt_le_dec b a) as [Hlt|Hle]; [lra|].
  apply Qle_bool_iff in Hle. congruence.
Qed.

Lemma qinsert_sorted x l : qsorted l -> qsorted (qinsert x l).
Proof.
  induction l as [|h r IH]; cbn [qinsert]; [cbn; trivial|]. intros Hs.
  destruct (Qle_bool x h) eqn:E.
  - apply Qle_bool_iff in E. cbn [qsorted]. split; assumption.
  - apply Qle_bool_false in E. destruct r as [|b r'].
    + cbn. split; [exact E|trivial].
    + cbn [qsorted] in Hs. destruct Hs as [Hhb Hr]. specialize (IH Hr).
      cbn [qinsert] in *. destruct (Qle_bool x b) eqn:E2.
      * apply Qle_bool_iff in E2. cbn [qsorted] in *. repeat split; try assumption; tauto.
      * cbn [qsorted] in *. split; [exact Hhb|exact IH].
Qed.
Lemma qsort_sorted l : qsorted (qsort l).
Proof. induction l as [|a l IH]; cbn; [trivial|]. apply qinsert_sorted, IH. Qed.

(* ---- telescoping: the arcs sum to the full circle ---- *)
Lemma last_indep {A} (l : list A) (x d d' : A) : last (x :: l) d = last (x :: l) d'.
Proof. revert x. induction l as [|y l IH]; intros x; [reflexivity|]. exact (IH y). Qed.

Lemma diffs_sum a r : qsum (diffs (a :: r)) == last (a :: r) a - a.
Proof.
  revert a. induction r as [|b r IH]; intros a.
  - cbn. lra.
  - change (diffs (a :: b :: r)) with ((b - a) :: diffs (b :: r)).
    change (qsum ((b - a) :: diffs (b :: r))) with ((b - a) + qsum (diffs (b :: r))).
    rewrite IH. change (last (a :: b :: r) a) with (last (b :: r) a).
    rewrite (last_indep r b a b). lra.
Qed.

Lemma last_snoc {A} (l : list A) (x d : A) : last (l ++ [x]) d = x.
Proof. induction l as [|a l IH]; [reflexivity|]. cbn [app]. destruct (l ++ [x]) eqn:E; [destruct l; discriminate|]. exact IH. Qed.

Lemma gaps_sum_one l : l <> [] -> qsum (gaps l) == 1.
Proof.
  destruct l as [|p0 r]; [congruence|]. intros _. unfold gaps.
  change ((p0 :: r) ++ [p0 + 1]) with (p0 :: (r ++ [p0 + 1])).
  rewrite diffs_sum. change (p0 :: (r ++ [p0 + 1])) with ((p0 :: r) ++ [p0 + 1]). rewrite last_snoc. lra.
Qed.

Lemma length_diffs a r : length (diffs (a :: r)) = length r.
Proof.
  revert a. induction r as [|b r IH]; intros a; [reflexivity|].
  change (diffs (a :: b :: r)) with ((b - a) :: diffs (b :: r)). cbn [length]. rewrite IH. reflexivity.
Qed.
Lemma length_gaps l : length (gaps l) = length l.
Proof.
  destruct l as [|p0 r]; [reflexivity|]. unfold gaps.
  change ((p0 :: r) ++ [p0 + 1]) with (p0 :: (r ++ [p0 + 1])).
  rewrite length_diffs, app_length. cbn. lia.
Qed.

(* ---- every arc is non-negative when the phases are sorted and lie in [0,1) ---- *)
Lemma diffs_nonneg l : qsorted l -> forall g, In g (diffs l) -> 0 <= g.
Proof.
  induction l as [|a r IH]; [intros _ g []|]. destruct r as [|b r']; [intros _ g []|].
  intros [Hab Hr] g. change (diffs (a :: b :: r')) with ((b - a) :: diffs (b :: r')).
  intros [<-|Hin]; [lra|]. apply IH; assumption.
Qed.
Lemma qsorted_snoc l x : qsorted l -> (forall y, In y l -> y <= x) -> qsorted (l ++ [x]).
Proof.
  induction l as [|a r IH]; [cbn; trivial|]. intros Hs Hle. destruct r as [|b r'].
  - cbn. split; [apply Hle; left; reflexivity|trivial].
  - destruct Hs as [Hab Hr]. change ((a :: b :: r') ++ [x]) with (a :: ((b :: r') ++ [x])).
    change ((b :: r') ++ [x]) with (b :: (r' ++ [x])) at 1. cbn [qsorted]. split; [exact Hab|].
    apply IH; [exact Hr|]. intros y Hy. apply Hle. right. exact Hy.
Qed.
Lemma gaps_nonneg l :
  qsorted l -> (forall p, In p l -> 0 <= p /\ p < 1) -> forall g, In g (gaps l) -> 0 <= g.
Proof.
  intros Hs Hr. destruct l as [|p0 r]; [intros g []|]. unfold gaps.
  apply diffs_nonneg. apply qsorted_snoc; [exact Hs|].
  intros y Hy. pose proof (Hr y Hy). pose proof (Hr p0 (or_introl eq_refl)). lra.
Qed.

(* ---- maximum ---- *)
Lemma qmax_ge_l a b : a <= qmax a b.
Proof. unfold qmax. destruct (Qle_bool a b) eqn:E; [apply Qle_bool_iff, E|lra]. Qed.
Lemma qmax_ge_r a b : b <= qmax a b.
Proof. unfold qmax. destruct (Qle_bool a b) eqn:E; [lra|apply Qle_bool_false, E]. Qed.
Lemma qmaxl_ge d l g : In g l -> g <= qmaxl d l.
Proof.
  induction l as [|a r IH]; [intros []|]. cbn [qmaxl fold_right]. intros [->|Hin].
  - apply qmax_ge_l.
  - eapply Qle_trans; [apply IH, Hin|apply qmax_ge_r].
Qed.
Lemma qmaxl_ge_d d l : d <= qmaxl d l.
Proof.
  induction l as [|a r IH]; cbn [qmaxl fold_right]; [lra|].
  eapply Qle_trans; [exact IH|apply qmax_ge_r].
Qed.
Lemma qmaxl_in d l : qmaxl d l = d \/ In (qmaxl d l) l.
Proof.
  induction l as [|a r IH]; [left; reflexivity|].
  change (qmaxl d (a :: r)) with (qmax a (qmaxl d r)).
  unfold qmax. destruct (Qle_bool a (qmaxl d r)).
  - destruct IH as [E|Hin]; [left; exact E|right; right; exact Hin].
  - right. left. reflexivity.
Qed.

Lemma qsum_le_len m l : (forall g, In g l -> g <= m) -> qsum l <= inject_Z (Z.of_nat (length l)) * m.
Proof.
  induction l as [|a r IH]; intros H.
  - cbn. unfold inject_Z. lra.
  - cbn [qsum fold_right length]. rewrite Nat2Z.inj_succ. unfold Z.succ. rewrite inject_Z_plus.
    change (inject_Z 1) with 1.
    assert (Ha : a <= m) by (apply H; left; reflexivity).
    assert (Hr : qsum r <= inject_Z (Z.of_nat (length r)) * m) by (apply IH; intros g Hg; apply H; right; exact Hg).
    change (fold_right Qplus 0 r) with (qsum r). lra.
Qed.

(* ---- the statements about max_phase_gap ---- *)
Section MPG.
  Variables tref P : Q.
  Variable ts : list Q.
  Hypothesis Hne : ts <> [].
  Let ph := qsort (map (phase tref P) ts).
  Let g := gaps ph.
  Let mpg := max_phase_gap tref P ts.

  Lemma ph_ne : ph <> [].
  Proof.
    subst ph. intros E. pose proof (qsort_perm (map (phase tref P) ts)) as Hp. rewrite E in Hp.
    apply Permutation_nil in Hp. destruct ts; [congruence|discriminate].
  Qed.
  Lemma ph_range p : In p ph -> 0 <= p /\ p < 1.
  Proof.
    subst ph. intros Hin. apply (Permutation_in _ (qsort_perm _)) in Hin.
    apply in_map_iff in Hin. destruct Hin as (t & <- & _). apply phase_range.
  Qed.

  Lemma mpg_arcs_sum_one : qsum g == 1.
  Proof. apply gaps_sum_one, ph_ne. Qed.
  Lemma mpg_arcs_nonneg x : In x g -> 0 <= x.
  Proof. apply gaps_nonneg; [apply qsort_sorted|apply ph_range]. Qed.
  Lemma mpg_ge_each x : In x g -> x <= mpg.
  Proof. apply qmaxl_ge. Qed.
  Lemma mpg_is_an_arc : In mpg g.
  Proof.
    destruct (qmaxl_in 0 g) as [E|Hin]; [|exact Hin]. exfalso.
    (* max = 0 would make every arc 0, contradicting sum = 1 *)
    assert (Hle : qsum g <= inject_Z (Z.of_nat (length g)) * 0).
    { apply qsum_le_len. intros x Hx. fold mpg in E. rewrite <- E. apply (qmaxl_ge 0 g x Hx). }
    pose proof mpg_arcs_sum_one. lra.
  Qed.
  Lemma mpg_ge_inv_n : 1 <= inject_Z (Z.of_nat (length ts)) * mpg.
  Proof.
    rewrite <- mpg_arcs_sum_one.
    replace (length ts) with (length g).
    - apply qsum_le_len. exact mpg_ge_each.
    - subst g. rewrite length_gaps. subst ph.
      rewrite (Permutation_length (qsort_perm _)), map_length. reflexivity.
  Qed.
  Lemma mpg_le_one : mpg <= 1.
  Proof.
    (* a non-negative summand of a sum equal to 1 *)
    pose proof mpg_is_an_arc as Hin. pose proof mpg_arcs_sum_one as Hs.
    assert (H : forall l x, (forall y, In y l -> 0 <= y) -> In x l -> x <= qsum l).
    { induction l as [|a r IH]; intros x Hnn [].
      - subst. cbn [qsum fold_right]. change (fold_right Qplus 0 r) with (qsum r).
        assert (0 <= qsum r).
        { clear -Hnn. induction r as [|b r IH]; cbn; [lra|].
          assert (0 <= b) by (apply Hnn; right; left; reflexivity).
          assert (0 <= fold_right Qplus 0 r).
          { apply IH. intros y [->|Hy]; apply Hnn; [left; reflexivity|right; right; exact Hy]. }
          lra. }
        lra.
      - cbn [qsum fold_right]. change (fold_right Qplus 0 r) with (qsum r).
        assert (0 <= a) by (apply Hnn; left; reflexivity).
        assert (x <= qsum r) by (apply IH; [intros y Hy; apply Hnn; right; exact Hy|assumption]). lra. }
    rewrite <- Hs. apply H; [exact mpg_arcs_nonneg|exact Hin].
  Qed.
End MPG.

(* ---- phase coverage is a fraction of the bins ---- *)
Lemma filter_len_le {A} (f : A -> bool) l : (length (filter f l) <= length l)%nat.
Proof. induction l as [|a l IH]; cbn; [lia|]. destruct (f a); cbn; lia. Qed.
Lemma occupied_le n ph : (occupied n ph <= n)%nat.
Proof.
  unfold occupied. eapply Nat.le_trans; [apply filter_len_le|]. rewrite seq_length. lia.
Qed.

(* ---- MAP_sample: the returned index holds a maximum, and is the first one ---- *)
Lemma map_index_spec (l : list XQ) : l <> [] ->
  let r := gargmax xq_leb l in
  (r < length l)%nat /\
  (forall i, (i < length l)%nat -> xq_leb (nth i l XNInf) (nth r l XNInf) = true) /\
  (forall i, (i < r)%nat -> xq_leb (nth r l XNInf) (nth i l XNInf) = false).
Proof. apply gargmax_spec; [exact xq_leb_total|exact xq_leb_trans]. Qed.

(* ---- order independence ---- *)
Definition canonical (q : Q) : Prop := Qred q = q.
Lemma canonical_eq a b : canonical a -> canonical b -> a == b -> a = b.
Proof. unfold canonical. intros Ha Hb E. rewrite <- Ha, <- Hb. apply Qred_complete, E. Qed.
Lemma phase_canonical tref P t : canonical (phase tref P t).
Proof. unfold canonical, phase. apply Qred_complete, Qred_correct. Qed.

Lemma qsorted_head_le a r : qsorted (a :: r) -> forall b, In b r -> a <= b.
Proof.
  revert a. induction r as [|c r IH]; intros a Hs b Hin; [destruct Hin|].
  destruct Hs as [Hac Hr]. destruct Hin as [->|Hin]; [exact Hac|].
  eapply Qle_trans; [exact Hac|]. apply IH; assumption.
Qed.
Lemma qsorted_tail a r : qsorted (a :: r) -> qsorted r.
Proof. destruct r; [trivial|]. intros [_ H]. exact H. Qed.

Lemma sorted_perm_unique l1 : forall l2,
  Forall canonical l1 -> qsorted l1 -> qsorted l2 -> Permutation l1 l2 -> l1 = l2.
Proof.
  induction l1 as [|a r1 IH]; intros l2 Hc Hs1 Hs2 Hp.
  - apply Permutation_nil in Hp. congruence.
  - destruct l2 as [|b r2]; [apply Permutation_sym, Permutation_nil in Hp; discriminate|].
    assert (Hcb : canonical b).
    { assert (In b (a :: r1)) by (apply (Permutation_in _ (Permutation_sym Hp)); left; reflexivity).
      rewrite Forall_forall in Hc. apply Hc. assumption. }
    assert (Hab : a <= b).
    { assert (Hin : In b (a :: r1)) by (apply (Permutation_in _ (Permutation_sym Hp)); left; reflexivity).
      destruct Hin as [->|Hin]; [lra|]. eapply qsorted_head_le; eassumption. }
    assert (Hba : b <= a).
    { assert (Hin : In a (b :: r2)) by (apply (Permutation_in _ Hp); left; reflexivity).
      destruct Hin as [->|Hin]; [lra|]. eapply qsorted_head_le; eassumption. }
    assert (E : a = b).
    { apply canonical_eq; [inversion Hc; assumption|exact Hcb|lra]. }
    subst b. f_equal. apply IH.
    + inversion Hc; assumption.
    + eapply qsorted_tail; eassumption.
    + eapply qsorted_tail; eassumption.
    + eapply Permutation_cons_inv; eassumption.
Qed.

Lemma qsort_perm_invariant l l' :
  Forall canonical l -> Permutation l l' -> qsort l = qsort l'.
Proof.
  intros Hc Hp. apply sorted_perm_unique.
  - rewrite Forall_forall in *. intros x Hx. apply Hc. apply (Permutation_in _ (qsort_perm l)). exact Hx.
  - apply qsort_sorted.
  - apply qsort_sorted.
  - rewrite (qsort_perm l), Hp. symmetry. apply qsort_perm.
Qed.

Lemma mpg_perm_invariant tref P ts ts' :
  Permutation ts ts' -> max_phase_gap tref P ts = max_phase_gap tref P ts'.
Proof.
  intros Hp. unfold max_phase_gap. f_equal. f_equal. apply qsort_perm_invariant.
  - rewrite Forall_forall. intros x Hx. apply in_map_iff in Hx. destruct Hx as (t & <- & _). apply phase_canonical.
  - apply Permutation_map, Hp.
Qed.

Lemma existsb_perm {A} (f : A -> bool) l l' : Permutation l l' -> existsb f l = existsb f l'.
Proof.
  induction 1; cbn; try congruence.
  - destruct (f y), (f x); reflexivity.
Qed.
Lemma coverage_perm_invariant tref P n ts ts' :
  Permutation ts ts' -> phase_coverage tref P n ts = phase_coverage tref P n ts'.
Proof.
  intros Hp. unfold phase_coverage, occupied. do 4 f_equal.
  apply filter_ext. intros k. apply existsb_perm, Permutation_map, Hp.
Qed.
