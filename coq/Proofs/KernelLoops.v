(* Level 1: what the loop nests of the GENERATED kernel model (Gen/KernelPyx.v, from fast_likelihood.pyx) compute, for every
   operations record, every number of epochs / linear parameters and every initial state -- as closed forms over left-nested
   sums in loop order.  No ring laws are used here: the equalities are syntactic in the operations.
   Uses functional extensionality (arrays are functions). *)
From Coq Require Import ZArith List Bool Arith Lia FunctionalExtensionality.
From TJ Require Import Base.Imp Base.Fops Gen.KernelPyx.
Import ListNotations.

Section Loops.
Context {F : Type} (fo : fops F).

(* left-nested folds in loop order: ((acc op t 0) op t 1) ... *)
Definition fold_from (op : F -> F -> F) (acc : F) (n : nat) (t : nat -> F) : F := for_range n (fun k a => op a (t k)) acc.
Definition sum_from := fold_from (fadd fo).
Definition dif_from := fold_from (fsub fo).

Definition fill2 (X : arr2 F) (P : nat -> nat -> bool) (v : nat -> nat -> F) : arr2 F := fun a b => if P a b then v a b else X a b.
Definition fill1 (X : arr1 F) (P : nat -> bool) (v : nat -> F) : arr1 F := fun a => if P a then v a else X a.

Lemma fold_from_S op acc n t : fold_from op acc (S n) t = op (fold_from op acc n t) (t n).
Proof. reflexivity. Qed.
Lemma fold_from_ext op acc n t t' : (forall k, (k < n)%nat -> t k = t' k) -> fold_from op acc n t = fold_from op acc n t'.
Proof.
  intros H. unfold fold_from. apply for_range_ext. intros i a Hi. rewrite H by exact Hi. reflexivity.
Qed.

(* ---- lenses on the kernel state: one per array field; all laws hold by computation ---- *)
Record lens2 := mk_lens2 { lg : kst (F := F) -> arr2 F; ls : arr2 F -> kst (F := F) -> kst (F := F);
  lgs : forall x s, lg (ls x s) = x; lss : forall x y s, ls x (ls y s) = ls x s; lsg : forall s, ls (lg s) s = s }.
Record lens1 := mk_lens1 { lg1 : kst (F := F) -> arr1 F; ls1 : arr1 F -> kst (F := F) -> kst (F := F);
  lgs1 : forall x s, lg1 (ls1 x s) = x; lss1 : forall x y s, ls1 x (ls1 y s) = ls1 x s; lsg1 : forall s, ls1 (lg1 s) s = s }.
Ltac lens_sg := intros s; destruct s; reflexivity.
(* bring a state expression built from setters to record-literal form *)
Ltac norm_state :=
  cbv beta iota delta [set_v_Ainv set_v_Atmp set_v_A set_v_B set_v_Binv set_v_Btmp set_v_M_T set_v_b set_v_a set_v_mu set_v_Lambda set_v_ivar
    set_v_s_ivar set_v_rv set_l_info set_l_lwork set_l_nrhs set_l_log_det_val set_l_chi2 set_l_dy set_l_var set_l_P set_l_e set_l_om set_l_M0
    set_l__ll set_l_ll v_Ainv v_Atmp v_A v_B v_Binv v_Btmp v_M_T v_b v_a v_mu v_Lambda v_ivar v_s_ivar v_rv l_info l_lwork l_nrhs
    l_log_det_val l_chi2 l_dy l_var l_P l_e l_om l_M0 l__ll l_ll].
Definition L_Ainv : lens2. Proof. refine (mk_lens2 v_Ainv set_v_Ainv (fun _ _ => eq_refl) (fun _ _ _ => eq_refl) _). lens_sg. Defined.
Definition L_Atmp : lens2. Proof. refine (mk_lens2 v_Atmp set_v_Atmp (fun _ _ => eq_refl) (fun _ _ _ => eq_refl) _). lens_sg. Defined.
Definition L_A : lens2. Proof. refine (mk_lens2 v_A set_v_A (fun _ _ => eq_refl) (fun _ _ _ => eq_refl) _). lens_sg. Defined.
Definition L_B : lens2. Proof. refine (mk_lens2 v_B set_v_B (fun _ _ => eq_refl) (fun _ _ _ => eq_refl) _). lens_sg. Defined.
Definition L_Binv : lens2. Proof. refine (mk_lens2 v_Binv set_v_Binv (fun _ _ => eq_refl) (fun _ _ _ => eq_refl) _). lens_sg. Defined.
Definition L_Btmp : lens2. Proof. refine (mk_lens2 v_Btmp set_v_Btmp (fun _ _ => eq_refl) (fun _ _ _ => eq_refl) _). lens_sg. Defined.
Definition L_b : lens1. Proof. refine (mk_lens1 v_b set_v_b (fun _ _ => eq_refl) (fun _ _ _ => eq_refl) _). lens_sg. Defined.
Definition L_a : lens1. Proof. refine (mk_lens1 v_a set_v_a (fun _ _ => eq_refl) (fun _ _ _ => eq_refl) _). lens_sg. Defined.

Lemma upd2_upd2 (X : arr2 F) i j x y : upd2 (upd2 X i j x) i j y = upd2 X i j y.
Proof.
  extensionality a. extensionality b. unfold upd2. destruct (Nat.eqb a i && Nat.eqb b j); reflexivity.
Qed.
Lemma upd1_upd1 (X : arr1 F) i x y : upd1 (upd1 X i x) i y = upd1 X i y.
Proof. extensionality a. unfold upd1. destruct (Nat.eqb a i); reflexivity. Qed.
Lemma upd2_self (X : arr2 F) i j : upd2 X i j (X i j) = X.
Proof.
  extensionality a. extensionality b. unfold upd2. destruct (Nat.eqb a i && Nat.eqb b j) eqn:E; [|reflexivity].
  apply andb_prop in E. destruct E as [E1 E2]. apply Nat.eqb_eq in E1, E2. subst. reflexivity.
Qed.
Lemma upd1_self (X : arr1 F) i : upd1 X i (X i) = X.
Proof. extensionality a. unfold upd1. destruct (Nat.eqb a i) eqn:E; [|reflexivity]. apply Nat.eqb_eq in E. subst. reflexivity. Qed.

(* innermost shape: N accumulations into ONE cell of an array, the added terms not reading that array *)
Lemma acc_cell2 (L : lens2) (op : F -> F -> F) i j N (t : nat -> kst -> F) s0 :
  (forall n x s, t n (ls L x s) = t n s) ->
  for_range N (fun n s => ls L (upd2 (lg L s) i j (op (lg L s i j) (t n s))) s) s0
  = ls L (upd2 (lg L s0) i j (fold_from op (lg L s0 i j) N (fun n => t n s0))) s0.
Proof.
  intros Ht. induction N as [|N IH].
  - unfold fold_from. cbn [for_range]. rewrite upd2_self, lsg. reflexivity.
  - cbn [for_range]. rewrite IH. rewrite lgs, lss, Ht, upd2_upd2, fold_from_S.
    unfold upd2 at 2. rewrite !Nat.eqb_refl. reflexivity.
Qed.
Lemma acc_cell1 (L : lens1) (op : F -> F -> F) i N (t : nat -> kst -> F) s0 :
  (forall n x s, t n (ls1 L x s) = t n s) ->
  for_range N (fun n s => ls1 L (upd1 (lg1 L s) i (op (lg1 L s i) (t n s))) s) s0
  = ls1 L (upd1 (lg1 L s0) i (fold_from op (lg1 L s0 i) N (fun n => t n s0))) s0.
Proof.
  intros Ht. induction N as [|N IH].
  - unfold fold_from. cbn [for_range]. rewrite upd1_self, lsg1. reflexivity.
  - cbn [for_range]. rewrite IH. rewrite lgs1, lss1, Ht, upd1_upd1, fold_from_S.
    unfold upd1 at 2. rewrite Nat.eqb_refl. reflexivity.
Qed.

Variable orc : oracles F.
Variables nt nl : nat.
Notation NT := (Z.of_nat nt).
Notation NL := (Z.of_nat nl).
Notation st := (kst (F := F)).

(* array facts used by the sweeps *)
Lemma upd2_fill_row (X : arr2 F) i K (v : nat -> F) :
  upd2 (fun a b => if Nat.eqb a i && Nat.ltb b K then v b else X a b) i K (v K)
  = (fun a b => if Nat.eqb a i && Nat.ltb b (S K) then v b else X a b).
Proof.
  extensionality a. extensionality b. unfold upd2.
  destruct (Nat.eqb_spec a i) as [Ha|Ha]; cbn [andb]; [|reflexivity].
  destruct (Nat.eqb_spec b K) as [Hb|Hb].
  - subst b. replace (K <? S K)%nat with true by (symmetry; apply Nat.ltb_lt; lia). reflexivity.
  - destruct (Nat.ltb_spec b K) as [H1|H1]; destruct (Nat.ltb_spec b (S K)) as [H2|H2]; try reflexivity; lia.
Qed.
Lemma fill_rows_step (X : arr2 F) K W (v : nat -> nat -> F) :
  (fun a b => if Nat.eqb a K && Nat.ltb b W then v a b else (if Nat.ltb a K && Nat.ltb b W then v a b else X a b))
  = (fun a b => if Nat.ltb a (S K) && Nat.ltb b W then v a b else X a b).
Proof.
  extensionality a. extensionality b.
  destruct (Nat.eqb_spec a K) as [Ha|Ha]; destruct (Nat.ltb_spec a K) as [H1|H1]; destruct (Nat.ltb_spec a (S K)) as [H2|H2];
    cbn [andb]; try reflexivity; try lia; destruct (b <? W)%nat; reflexivity.
Qed.
Lemma upd1_fill (X : arr1 F) K (v : nat -> F) :
  upd1 (fun a => if Nat.ltb a K then v a else X a) K (v K) = (fun a => if Nat.ltb a (S K) then v a else X a).
Proof.
  extensionality a. unfold upd1. destruct (Nat.eqb_spec a K) as [Ha|Ha].
  - subst a. replace (K <? S K)%nat with true by (symmetry; apply Nat.ltb_lt; lia). reflexivity.
  - destruct (Nat.ltb_spec a K) as [H1|H1]; destruct (Nat.ltb_spec a (S K)) as [H2|H2]; try reflexivity; lia.
Qed.
Lemma fill_empty2 (X : arr2 F) (P : nat -> nat -> bool) (v : nat -> nat -> F) : (forall a b, P a b = false) -> (fun a b => if P a b then v a b else X a b) = X.
Proof. intros H. extensionality a. extensionality b. rewrite H. reflexivity. Qed.

(* ================= make_AAinv ================= *)
(* structured mirror of the generated term; AAinv_mirror below checks by CONVERSION that it is the generated code *)
Definition tA (i j : nat) (s : st) (n : nat) : F := fmul fo (fmul fo (v_M_T s j n) (v_s_ivar s n)) (v_M_T s i n).
Definition AA_zero_j (i : nat) (s : st) : st := for_range nl (fun j s => set_v_Ainv (upd2 (v_Ainv s) i j (fz fo 0)) s) s.
Definition AA_zero (s : st) : st := for_range nl AA_zero_j s.
Definition AA_n (i j : nat) (s : st) : st :=
  for_range nt (fun n s => set_v_Ainv (upd2 (v_Ainv s) i j (fadd fo (v_Ainv s i j) (tA i j s n))) s) s.
Definition AA_j (i j : nat) (s : st) : st := let s := AA_n i j s in set_v_Atmp (upd2 (v_Atmp s) i j (v_Ainv s i j)) s.
Definition AA_i (i : nat) (s : st) : st :=
  let s := set_v_Ainv (upd2 (v_Ainv s) i i (fdiv fo (fz fo 1) (v_Lambda s i))) s in for_range nl (AA_j i) s.
Definition AA_copy_j (i : nat) (s : st) : st := for_range nl (fun j s => set_v_A (upd2 (v_A s) i j (v_Atmp s i j)) s) s.
Definition AA_copy (s : st) : st := for_range nl AA_copy_j s.
Definition AA_main (s : st) : st := for_range nl AA_i (AA_zero (set_l_lwork NL (set_l_info 0%Z s))).
Definition make_AAinv_mirror (s : st) : st * Z :=
  let s := AA_main s in
  match o_inv orc nl (v_Atmp s) with
  | None => (s, (-1)%Z)
  | Some Y => (AA_copy (set_v_Atmp Y s), 0%Z)
  end.
Lemma AAinv_mirror s : make_AAinv fo orc NT NL s = make_AAinv_mirror s.
Proof. unfold make_AAinv, make_AAinv_mirror. rewrite !Nat2Z.id. reflexivity. Qed.

(* ---- generic sweeps ---- *)
(* one row of a 2-D array assigned cell by cell, the values not reading that array *)
Lemma row_assign2 (L : lens2) i K (v : nat -> st -> F) s0 :
  (forall j x s, v j (ls L x s) = v j s) ->
  for_range K (fun j s => ls L (upd2 (lg L s) i j (v j s)) s) s0
  = ls L (fun a b => if Nat.eqb a i && Nat.ltb b K then v b s0 else lg L s0 a b) s0.
Proof.
  intros Hv. induction K as [|K IH].
  - cbn [for_range]. rewrite fill_empty2 by (intros a b; rewrite andb_false_r; reflexivity). rewrite lsg. reflexivity.
  - cbn [for_range]. rewrite IH, lgs, lss, Hv. rewrite (upd2_fill_row (lg L s0) i K (fun b => v b s0)). reflexivity.
Qed.
(* rows 0..K-1 each filled (columns < W) with values that do not read the array *)
Lemma rows_assign2 (L : lens2) K W (rowf : nat -> st -> st) (v : nat -> nat -> st -> F) s0 :
  (forall i s, rowf i s = ls L (fun a b => if Nat.eqb a i && Nat.ltb b W then v a b s else lg L s a b) s) ->
  (forall i j x s, v i j (ls L x s) = v i j s) ->
  for_range K rowf s0 = ls L (fun a b => if Nat.ltb a K && Nat.ltb b W then v a b s0 else lg L s0 a b) s0.
Proof.
  intros Hrow Hv. induction K as [|K IH].
  - cbn [for_range]. rewrite fill_empty2 by (intros a b; reflexivity). rewrite lsg. reflexivity.
  - cbn [for_range]. rewrite IH, Hrow, lgs, lss.
    replace (fun a b => if Nat.eqb a K && Nat.ltb b W then v a b (ls L (fun a0 b0 => if Nat.ltb a0 K && Nat.ltb b0 W then v a0 b0 s0 else lg L s0 a0 b0) s0)
                        else (if Nat.ltb a K && Nat.ltb b W then v a b s0 else lg L s0 a b))
      with (fun a b => if Nat.eqb a K && Nat.ltb b W then v a b s0 else (if Nat.ltb a K && Nat.ltb b W then v a b s0 else lg L s0 a b)).
    + rewrite (fill_rows_step (lg L s0) K W (fun a b => v a b s0)). reflexivity.
    + extensionality a. extensionality b. rewrite Hv. reflexivity.
Qed.

Lemma AA_zero_char s : AA_zero s = set_v_Ainv (fun a b => if Nat.ltb a nl && Nat.ltb b nl then fz fo 0 else v_Ainv s a b) s.
Proof.
  unfold AA_zero. apply (rows_assign2 L_Ainv nl nl AA_zero_j (fun _ _ _ => fz fo 0)); [|reflexivity].
  intros i s1. unfold AA_zero_j. apply (row_assign2 L_Ainv i nl (fun _ _ => fz fo 0)). reflexivity.
Qed.

Lemma AA_n_char i j s :
  AA_n i j s = set_v_Ainv (upd2 (v_Ainv s) i j (sum_from (v_Ainv s i j) nt (tA i j s))) s.
Proof. unfold AA_n. apply (acc_cell2 L_Ainv (fadd fo) i j nt (fun n s => tA i j s n)). reflexivity. Qed.

Lemma AA_j_char i j s :
  AA_j i j s = set_v_Atmp (upd2 (v_Atmp s) i j (sum_from (v_Ainv s i j) nt (tA i j s)))
                 (set_v_Ainv (upd2 (v_Ainv s) i j (sum_from (v_Ainv s i j) nt (tA i j s))) s).
Proof.
  unfold AA_j. rewrite AA_n_char. cbv zeta. cbn [v_Ainv v_Atmp set_v_Ainv]. rewrite upd2_same. reflexivity.
Qed.

(* the j sweep of row i: cells (i, j), j < K, of Ainv and of Atmp receive old Ainv[i,j] + sum_n M_T[j,n] w[n] M_T[i,n] *)
Lemma AA_j_sweep i K s :
  for_range K (AA_j i) s
  = set_v_Atmp (fun a b => if Nat.eqb a i && Nat.ltb b K then sum_from (v_Ainv s i b) nt (tA i b s) else v_Atmp s a b)
      (set_v_Ainv (fun a b => if Nat.eqb a i && Nat.ltb b K then sum_from (v_Ainv s i b) nt (tA i b s) else v_Ainv s a b) s).
Proof.
  induction K as [|K IH].
  - cbn [for_range]. rewrite !fill_empty2 by (intros a b; rewrite andb_false_r; reflexivity). destruct s; reflexivity.
  - cbn [for_range]. rewrite IH, AA_j_char. cbn [v_Ainv v_Atmp set_v_Ainv set_v_Atmp].
    rewrite Nat.eqb_refl, Nat.ltb_irrefl. cbn [andb].
    change (tA i K (set_v_Atmp _ (set_v_Ainv _ s))) with (tA i K s).
    rewrite (upd2_fill_row (v_Ainv s) i K (fun b => sum_from (v_Ainv s i b) nt (tA i b s))).
    rewrite (upd2_fill_row (v_Atmp s) i K (fun b => sum_from (v_Ainv s i b) nt (tA i b s))).
    reflexivity.
Qed.

(* the value Ainv[i,j] ends with *)
Definition Ainv_val (s : st) (i j : nat) : F :=
  sum_from (if Nat.eqb i j then fdiv fo (fz fo 1) (v_Lambda s i) else fz fo 0) nt (tA i j s).

(* state after the main loop has processed rows < K (started from the zero-filled state) *)
Definition AA_closed (s0 : st) (K : nat) : st :=
  set_v_Atmp (fun a b => if Nat.ltb a K && Nat.ltb b nl then Ainv_val s0 a b else v_Atmp s0 a b)
    (set_v_Ainv (fun a b => if Nat.ltb a K && Nat.ltb b nl then Ainv_val s0 a b
                            else if Nat.ltb a nl && Nat.ltb b nl then fz fo 0 else v_Ainv s0 a b)
       (set_l_lwork NL (set_l_info 0%Z s0))).

Lemma AA_main_char s0 K : (K <= nl)%nat ->
  for_range K AA_i (AA_zero (set_l_lwork NL (set_l_info 0%Z s0))) = AA_closed s0 K.
Proof.
  induction K as [|K IH]; intros HK.
  - cbn [for_range]. rewrite AA_zero_char. unfold AA_closed. cbn [v_Ainv v_Atmp set_l_lwork set_l_info set_v_Ainv].
    rewrite (fill_empty2 (v_Atmp s0)) by (intros a b; reflexivity). destruct s0; reflexivity.
  - cbn [for_range]. rewrite IH by lia. unfold AA_i. cbv zeta. rewrite AA_j_sweep.
    assert (HV : forall b, (b < nl)%nat ->
              sum_from (v_Ainv (set_v_Ainv (upd2 (v_Ainv (AA_closed s0 K)) K K (fdiv fo (fz fo 1) (v_Lambda (AA_closed s0 K) K))) (AA_closed s0 K)) K b) nt
                       (tA K b (set_v_Ainv (upd2 (v_Ainv (AA_closed s0 K)) K K (fdiv fo (fz fo 1) (v_Lambda (AA_closed s0 K) K))) (AA_closed s0 K)))
              = Ainv_val s0 K b).
    { intros b Hb. unfold Ainv_val, AA_closed. cbn [v_Ainv v_Lambda set_v_Ainv set_v_Atmp set_l_lwork set_l_info].
      unfold upd2. rewrite Nat.eqb_refl, Nat.ltb_irrefl. cbn [andb].
      replace (K <? nl)%nat with true by (symmetry; apply Nat.ltb_lt; lia).
      replace (b <? nl)%nat with true by (symmetry; apply Nat.ltb_lt; lia). cbn [andb].
      rewrite (Nat.eqb_sym b K). destruct (Nat.eqb K b); reflexivity. }
    unfold AA_closed at 3. 
    set (V := fun b => sum_from (v_Ainv (set_v_Ainv (upd2 (v_Ainv (AA_closed s0 K)) K K (fdiv fo (fz fo 1) (v_Lambda (AA_closed s0 K) K))) (AA_closed s0 K)) K b) nt
                       (tA K b (set_v_Ainv (upd2 (v_Ainv (AA_closed s0 K)) K K (fdiv fo (fz fo 1) (v_Lambda (AA_closed s0 K) K))) (AA_closed s0 K)))) in *.
    unfold AA_closed. norm_state. f_equal.
    + (* Ainv *)
      extensionality a. extensionality b. unfold upd2.
      destruct (Nat.eqb_spec a K) as [Ha|Ha]; cbn [andb].
      * subst a. replace (K <? S K)%nat with true by (symmetry; apply Nat.ltb_lt; lia). rewrite Nat.ltb_irrefl. cbn [andb].
        destruct (Nat.ltb_spec b nl) as [Hb|Hb]; [apply HV; exact Hb|].
        destruct (Nat.eqb_spec b K) as [Hbk|Hbk]; [lia|]. reflexivity.
      * destruct (Nat.ltb_spec a K) as [H1|H1]; destruct (Nat.ltb_spec a (S K)) as [H2|H2]; try reflexivity; lia.
    + (* Atmp *)
      extensionality a. extensionality b.
      destruct (Nat.eqb_spec a K) as [Ha|Ha]; cbn [andb].
      * subst a. replace (K <? S K)%nat with true by (symmetry; apply Nat.ltb_lt; lia). rewrite Nat.ltb_irrefl. cbn [andb].
        destruct (Nat.ltb_spec b nl) as [Hb|Hb]; [apply HV; exact Hb|reflexivity].
      * destruct (Nat.ltb_spec a K) as [H1|H1]; destruct (Nat.ltb_spec a (S K)) as [H2|H2]; try reflexivity; lia.
Qed.

(* copy of the inverse into A *)
Lemma AA_copy_char s : AA_copy s = set_v_A (fun a b => if Nat.ltb a nl && Nat.ltb b nl then v_Atmp s a b else v_A s a b) s.
Proof.
  unfold AA_copy. apply (rows_assign2 L_A nl nl AA_copy_j (fun a b s => v_Atmp s a b)); [|reflexivity].
  intros i s1. unfold AA_copy_j. apply (row_assign2 L_A i nl (fun b s => v_Atmp s i b)). reflexivity.
Qed.

(* ---- make_AAinv, all sizes, any initial state ---- *)
Theorem make_AAinv_char s0 :
  make_AAinv fo orc NT NL s0 =
  let s1 := AA_closed s0 nl in
  match o_inv orc nl (v_Atmp s1) with
  | None => (s1, (-1)%Z)
  | Some Y => (set_v_A (fun a b => if Nat.ltb a nl && Nat.ltb b nl then Y a b else v_A s0 a b) (set_v_Atmp Y s1), 0%Z)
  end.
Proof.
  rewrite AAinv_mirror. unfold make_AAinv_mirror, AA_main. rewrite AA_main_char by lia. cbv zeta.
  destruct (o_inv orc nl (v_Atmp (AA_closed s0 nl))) as [Y|]; [|reflexivity].
  rewrite AA_copy_char. reflexivity.
Qed.
End Loops.
