(* Level 1: what the loop nests of the GENERATED kernel model (Gen/KernelPyx.v, from fast_likelihood.pyx) compute, for every
   operations record, every number of epochs / linear parameters and every initial state -- as closed forms over left-nested
   sums in loop order.  No ring laws are used here: the equalities are syntactic in the operations.
   Uses functional extensionality (arrays are functions). *)
From Coq Require Import ZArith List Bool Arith Lia FunctionalExtensionality.
From TJ Require Import Base.Imp Base.Fops Gen.KernelPyx.
Import ListNotations.

Section Loops.
Context {F : Type} (fo : fops F).

(* left-nested folds in loop order: ((acc op t 0) op t 1) ... *)
Definition fold_from (op : F -> F -> F) (acc : F) (n : nat) (t : nat -> F) : F := for_range n (fun k a => op a (t k)) acc.
Definition sum_from := fold_from (fadd fo).
Definition dif_from := fold_from (fsub fo).

Definition fill2 (X : arr2 F) (P : nat -> nat -> bool) (v : nat -> nat -> F) : arr2 F := fun a b => if P a b then v a b else X a b.
Definition fill1 (X : arr1 F) (P : nat -> bool) (v : nat -> F) : arr1 F := fun a => if P a then v a else X a.

Lemma fold_from_S op acc n t : fold_from op acc (S n) t = op (fold_from op acc n t) (t n).
Proof. reflexivity. Qed.
Lemma fold_from_ext op acc n t t' : (forall k, (k < n)%nat -> t k = t' k) -> fold_from op acc n t = fold_from op acc n t'.
Proof.
  intros H. unfold fold_from. apply for_range_ext. intros i a Hi. rewrite H by exact Hi. reflexivity.
Qed.

(* ---- lenses on the kernel state: one per array field; all laws hold by computation ---- *)
Record lens2 := mk_lens2 { lg : kst (F := F) -> arr2 F; ls : arr2 F -> kst (F := F) -> kst (F := F);
  lgs : forall x s, lg (ls x s) = x; lss : forall x y s, ls x (ls y s) = ls x s; lsg : forall s, ls (lg s) s = s }.
Record lens1 := mk_lens1 { lg1 : kst (F := F) -> arr1 F; ls1 : arr1 F -> kst (F := F) -> kst (F := F);
  lgs1 : forall x s, lg1 (ls1 x s) = x; lss1 : forall x y s, ls1 x (ls1 y s) = ls1 x s; lsg1 : forall s, ls1 (lg1 s) s = s }.
Ltac lens_sg := intros s; destruct s; reflexivity.
(* simplify projections of setter chains and bring setter chains to canonical order with the generated state algebra
   (rewrite database `kst` of Gen/KernelPyx.v); the 27-field record is never unfolded *)
Ltac norm_state := autorewrite with kst.
(* the term-builders tA, tb, tB, tBi ... read only fields that the loops do not write: replace their state argument by the initial state (conversion) *)
Ltac reframe t s0 := repeat match goal with |- context [t ?S] => tryif constr_eq S s0 then fail else change (t S) with (t s0) end.
Definition L_Ainv : lens2. Proof. refine (mk_lens2 v_Ainv set_v_Ainv (fun _ _ => eq_refl) (fun _ _ _ => eq_refl) _). lens_sg. Defined.
Definition L_Atmp : lens2. Proof. refine (mk_lens2 v_Atmp set_v_Atmp (fun _ _ => eq_refl) (fun _ _ _ => eq_refl) _). lens_sg. Defined.
Definition L_A : lens2. Proof. refine (mk_lens2 v_A set_v_A (fun _ _ => eq_refl) (fun _ _ _ => eq_refl) _). lens_sg. Defined.
Definition L_B : lens2. Proof. refine (mk_lens2 v_B set_v_B (fun _ _ => eq_refl) (fun _ _ _ => eq_refl) _). lens_sg. Defined.
Definition L_Binv : lens2. Proof. refine (mk_lens2 v_Binv set_v_Binv (fun _ _ => eq_refl) (fun _ _ _ => eq_refl) _). lens_sg. Defined.
Definition L_Btmp : lens2. Proof. refine (mk_lens2 v_Btmp set_v_Btmp (fun _ _ => eq_refl) (fun _ _ _ => eq_refl) _). lens_sg. Defined.
Definition L_b : lens1. Proof. refine (mk_lens1 v_b set_v_b (fun _ _ => eq_refl) (fun _ _ _ => eq_refl) _). lens_sg. Defined.
Definition L_a : lens1. Proof. refine (mk_lens1 v_a set_v_a (fun _ _ => eq_refl) (fun _ _ _ => eq_refl) _). lens_sg. Defined.

Lemma upd2_upd2 (X : arr2 F) i j x y : upd2 (upd2 X i j x) i j y = upd2 X i j y.
Proof.
  extensionality a. extensionality b. unfold upd2. destruct (Nat.eqb a i && Nat.eqb b j); reflexivity.
Qed.
Lemma upd1_upd1 (X : arr1 F) i x y : upd1 (upd1 X i x) i y = upd1 X i y.
Proof. extensionality a. unfold upd1. destruct (Nat.eqb a i); reflexivity. Qed.
Lemma upd2_self (X : arr2 F) i j : upd2 X i j (X i j) = X.
Proof.
  extensionality a. extensionality b. unfold upd2. destruct (Nat.eqb a i && Nat.eqb b j) eqn:E; [|reflexivity].
  apply andb_prop in E. destruct E as [E1 E2]. apply Nat.eqb_eq in E1, E2. subst. reflexivity.
Qed.
Lemma upd1_self (X : arr1 F) i : upd1 X i (X i) = X.
Proof. extensionality a. unfold upd1. destruct (Nat.eqb a i) eqn:E; [|reflexivity]. apply Nat.eqb_eq in E. subst. reflexivity. Qed.

(* innermost shape: N accumulations into ONE cell of an array, the added terms not reading that array *)
Lemma acc_cell2 (L : lens2) (op : F -> F -> F) i j N (t : nat -> kst -> F) s0 :
  (forall n x s, t n (ls L x s) = t n s) ->
  for_range N (fun n s => ls L (upd2 (lg L s) i j (op (lg L s i j) (t n s))) s) s0
  = ls L (upd2 (lg L s0) i j (fold_from op (lg L s0 i j) N (fun n => t n s0))) s0.
Proof.
  intros Ht. induction N as [|N IH].
  - unfold fold_from. cbn [for_range]. rewrite upd2_self, lsg. reflexivity.
  - cbn [for_range]. rewrite IH. rewrite lgs, lss, Ht, upd2_upd2, fold_from_S.
    unfold upd2 at 2. rewrite !Nat.eqb_refl. reflexivity.
Qed.
Lemma acc_cell1 (L : lens1) (op : F -> F -> F) i N (t : nat -> kst -> F) s0 :
  (forall n x s, t n (ls1 L x s) = t n s) ->
  for_range N (fun n s => ls1 L (upd1 (lg1 L s) i (op (lg1 L s i) (t n s))) s) s0
  = ls1 L (upd1 (lg1 L s0) i (fold_from op (lg1 L s0 i) N (fun n => t n s0))) s0.
Proof.
  intros Ht. induction N as [|N IH].
  - unfold fold_from. cbn [for_range]. rewrite upd1_self, lsg1. reflexivity.
  - cbn [for_range]. rewrite IH. rewrite lgs1, lss1, Ht, upd1_upd1, fold_from_S.
    unfold upd1 at 2. rewrite Nat.eqb_refl. reflexivity.
Qed.

Variable orc : oracles F.
Variables nt nl : nat.
Notation NT := (Z.of_nat nt).
Notation NL := (Z.of_nat nl).
Notation st := (kst (F := F)).

(* array facts used by the sweeps *)
Lemma upd2_fill_row (X : arr2 F) i K (v : nat -> F) :
  upd2 (fun a b => if Nat.eqb a i && Nat.ltb b K then v b else X a b) i K (v K)
  = (fun a b => if Nat.eqb a i && Nat.ltb b (S K) then v b else X a b).
Proof.
  extensionality a. extensionality b. unfold upd2.
  destruct (Nat.eqb_spec a i) as [Ha|Ha]; cbn [andb]; [|reflexivity].
  destruct (Nat.eqb_spec b K) as [Hb|Hb].
  - subst b. replace (K <? S K)%nat with true by (symmetry; apply Nat.ltb_lt; lia). reflexivity.
  - destruct (Nat.ltb_spec b K) as [H1|H1]; destruct (Nat.ltb_spec b (S K)) as [H2|H2]; try reflexivity; lia.
Qed.
Lemma fill_rows_step (X : arr2 F) K W (v : nat -> nat -> F) :
  (fun a b => if Nat.eqb a K && Nat.ltb b W then v a b else (if Nat.ltb a K && Nat.ltb b W then v a b else X a b))
  = (fun a b => if Nat.ltb a (S K) && Nat.ltb b W then v a b else X a b).
Proof.
  extensionality a. extensionality b.
  destruct (Nat.eqb_spec a K) as [Ha|Ha]; destruct (Nat.ltb_spec a K) as [H1|H1]; destruct (Nat.ltb_spec a (S K)) as [H2|H2];
    cbn [andb]; try reflexivity; try lia; destruct (b <? W)%nat; reflexivity.
Qed.
Lemma upd1_fill (X : arr1 F) K (v : nat -> F) :
  upd1 (fun a => if Nat.ltb a K then v a else X a) K (v K) = (fun a => if Nat.ltb a (S K) then v a else X a).
Proof.
  extensionality a. unfold upd1. destruct (Nat.eqb_spec a K) as [Ha|Ha].
  - subst a. replace (K <? S K)%nat with true by (symmetry; apply Nat.ltb_lt; lia). reflexivity.
  - destruct (Nat.ltb_spec a K) as [H1|H1]; destruct (Nat.ltb_spec a (S K)) as [H2|H2]; try reflexivity; lia.
Qed.
Lemma fill_empty2 (X : arr2 F) (P : nat -> nat -> bool) (v : nat -> nat -> F) : (forall a b, P a b = false) -> (fun a b => if P a b then v a b else X a b) = X.
Proof. intros H. extensionality a. extensionality b. rewrite H. reflexivity. Qed.

(* ================= make_AAinv ================= *)
(* structured mirror of the generated term; AAinv_mirror below checks by CONVERSION that it is the generated code *)
Definition tA (i j : nat) (s : st) (n : nat) : F := fmul fo (fmul fo (v_M_T s j n) (v_s_ivar s n)) (v_M_T s i n).
Definition AA_zero_j (i : nat) (s : st) : st := for_range nl (fun j s => set_v_Ainv (upd2 (v_Ainv s) i j (fz fo 0)) s) s.
Definition AA_zero (s : st) : st := for_range nl AA_zero_j s.
Definition AA_n (i j : nat) (s : st) : st :=
  for_range nt (fun n s => set_v_Ainv (upd2 (v_Ainv s) i j (fadd fo (v_Ainv s i j) (tA i j s n))) s) s.
Definition AA_j (i j : nat) (s : st) : st := let s := AA_n i j s in set_v_Atmp (upd2 (v_Atmp s) i j (v_Ainv s i j)) s.
Definition AA_i (i : nat) (s : st) : st :=
  let s := set_v_Ainv (upd2 (v_Ainv s) i i (fdiv fo (fz fo 1) (v_Lambda s i))) s in for_range nl (AA_j i) s.
Definition AA_copy_j (i : nat) (s : st) : st := for_range nl (fun j s => set_v_A (upd2 (v_A s) i j (v_Atmp s i j)) s) s.
Definition AA_copy (s : st) : st := for_range nl AA_copy_j s.
Definition AA_main (s : st) : st := for_range nl AA_i (AA_zero (set_l_lwork NL (set_l_info 0%Z s))).
Definition make_AAinv_mirror (s : st) : st * Z :=
  let s := AA_main s in
  match o_inv orc nl (v_Atmp s) with
  | None => (s, (-1)%Z)
  | Some Y => (AA_copy (set_v_Atmp Y s), 0%Z)
  end.
Lemma AAinv_mirror s : make_AAinv fo orc NT NL s = make_AAinv_mirror s.
Proof. unfold make_AAinv, make_AAinv_mirror. rewrite !Nat2Z.id. reflexivity. Qed.

(* ---- generic sweeps ---- *)
(* one row of a 2-D array assigned cell by cell, the values not reading that array *)
Lemma row_assign2 (L : lens2) i K (v : nat -> st -> F) s0 :
  (forall j x s, v j (ls L x s) = v j s) ->
  for_range K (fun j s => ls L (upd2 (lg L s) i j (v j s)) s) s0
  = ls L (fun a b => if Nat.eqb a i && Nat.ltb b K then v b s0 else lg L s0 a b) s0.
Proof.
  intros Hv. induction K as [|K IH].
  - cbn [for_range]. rewrite fill_empty2 by (intros a b; rewrite andb_false_r; reflexivity). rewrite lsg. reflexivity.
  - cbn [for_range]. rewrite IH, lgs, lss, Hv. rewrite (upd2_fill_row (lg L s0) i K (fun b => v b s0)). reflexivity.
Qed.
(* rows 0..K-1 each filled (columns < W) with values that do not read the array *)
Lemma rows_assign2 (L : lens2) K W (rowf : nat -> st -> st) (v : nat -> nat -> st -> F) s0 :
  (forall i s, rowf i s = ls L (fun a b => if Nat.eqb a i && Nat.ltb b W then v a b s else lg L s a b) s) ->
  (forall i j x s, v i j (ls L x s) = v i j s) ->
  for_range K rowf s0 = ls L (fun a b => if Nat.ltb a K && Nat.ltb b W then v a b s0 else lg L s0 a b) s0.
Proof.
  intros Hrow Hv. induction K as [|K IH].
  - cbn [for_range]. rewrite fill_empty2 by (intros a b; reflexivity). rewrite lsg. reflexivity.
  - cbn [for_range]. rewrite IH, Hrow, lgs, lss.
    replace (fun a b => if Nat.eqb a K && Nat.ltb b W then v a b (ls L (fun a0 b0 => if Nat.ltb a0 K && Nat.ltb b0 W then v a0 b0 s0 else lg L s0 a0 b0) s0)
                        else (if Nat.ltb a K && Nat.ltb b W then v a b s0 else lg L s0 a b))
      with (fun a b => if Nat.eqb a K && Nat.ltb b W then v a b s0 else (if Nat.ltb a K && Nat.ltb b W then v a b s0 else lg L s0 a b)).
    + rewrite (fill_rows_step (lg L s0) K W (fun a b => v a b s0)). reflexivity.
    + extensionality a. extensionality b. rewrite Hv. reflexivity.
Qed.

Lemma AA_zero_char s : AA_zero s = set_v_Ainv (fun a b => if Nat.ltb a nl && Nat.ltb b nl then fz fo 0 else v_Ainv s a b) s.
Proof.
  unfold AA_zero. apply (rows_assign2 L_Ainv nl nl AA_zero_j (fun _ _ _ => fz fo 0)); [|reflexivity].
  intros i s1. unfold AA_zero_j. apply (row_assign2 L_Ainv i nl (fun _ _ => fz fo 0)). reflexivity.
Qed.

Lemma AA_n_char i j s :
  AA_n i j s = set_v_Ainv (upd2 (v_Ainv s) i j (sum_from (v_Ainv s i j) nt (tA i j s))) s.
Proof. unfold AA_n. apply (acc_cell2 L_Ainv (fadd fo) i j nt (fun n s => tA i j s n)). reflexivity. Qed.

Lemma AA_j_char i j s :
  AA_j i j s = set_v_Atmp (upd2 (v_Atmp s) i j (sum_from (v_Ainv s i j) nt (tA i j s)))
                 (set_v_Ainv (upd2 (v_Ainv s) i j (sum_from (v_Ainv s i j) nt (tA i j s))) s).
Proof.
  unfold AA_j. rewrite AA_n_char. cbv zeta. cbn [v_Ainv v_Atmp set_v_Ainv]. rewrite upd2_same. reflexivity.
Qed.

(* the j sweep of row i: cells (i, j), j < K, of Ainv and of Atmp receive old Ainv[i,j] + sum_n M_T[j,n] w[n] M_T[i,n] *)
Lemma AA_j_sweep i K s :
  for_range K (AA_j i) s
  = set_v_Atmp (fun a b => if Nat.eqb a i && Nat.ltb b K then sum_from (v_Ainv s i b) nt (tA i b s) else v_Atmp s a b)
      (set_v_Ainv (fun a b => if Nat.eqb a i && Nat.ltb b K then sum_from (v_Ainv s i b) nt (tA i b s) else v_Ainv s a b) s).
Proof.
  induction K as [|K IH].
  - cbn [for_range]. rewrite !fill_empty2 by (intros a b; rewrite andb_false_r; reflexivity). destruct s; reflexivity.
  - cbn [for_range]. rewrite IH, AA_j_char. cbn [v_Ainv v_Atmp set_v_Ainv set_v_Atmp].
    rewrite Nat.eqb_refl, Nat.ltb_irrefl. cbn [andb].
    reframe (tA i K) s.
    rewrite (upd2_fill_row (v_Ainv s) i K (fun b => sum_from (v_Ainv s i b) nt (tA i b s))).
    rewrite (upd2_fill_row (v_Atmp s) i K (fun b => sum_from (v_Ainv s i b) nt (tA i b s))).
    reflexivity.
Qed.

(* the value Ainv[i,j] ends with *)
Definition Ainv_val (s : st) (i j : nat) : F :=
  sum_from (if Nat.eqb i j then fdiv fo (fz fo 1) (v_Lambda s i) else fz fo 0) nt (tA i j s).

(* state after the main loop has processed rows < K (started from the zero-filled state) *)
Definition AA_closed (s0 : st) (K : nat) : st :=
  set_v_Atmp (fun a b => if Nat.ltb a K && Nat.ltb b nl then Ainv_val s0 a b else v_Atmp s0 a b)
    (set_v_Ainv (fun a b => if Nat.ltb a K && Nat.ltb b nl then Ainv_val s0 a b
                            else if Nat.ltb a nl && Nat.ltb b nl then fz fo 0 else v_Ainv s0 a b)
       (set_l_lwork NL (set_l_info 0%Z s0))).

Lemma AA_i_on_closed s0 K : (K < nl)%nat -> AA_i K (AA_closed s0 K) = AA_closed s0 (S K).
Proof.
  intros HK. unfold AA_i. cbv zeta. rewrite AA_j_sweep. unfold AA_closed. norm_state.
  assert (HV : forall b, (b < nl)%nat ->
     sum_from (upd2 (fun a0 b0 => if Nat.ltb a0 K && Nat.ltb b0 nl then Ainv_val s0 a0 b0
                                  else if Nat.ltb a0 nl && Nat.ltb b0 nl then fz fo 0 else v_Ainv s0 a0 b0) K K
                    (fdiv fo (fz fo 1) (v_Lambda s0 K)) K b) nt (tA K b s0) = Ainv_val s0 K b).
  { intros b Hb. unfold Ainv_val, upd2. rewrite Nat.eqb_refl, Nat.ltb_irrefl. cbn [andb].
    replace (K <? nl)%nat with true by (symmetry; apply Nat.ltb_lt; lia).
    replace (b <? nl)%nat with true by (symmetry; apply Nat.ltb_lt; lia). cbn [andb].
    rewrite (Nat.eqb_sym b K). destruct (Nat.eqb K b); reflexivity. }
  f_equal; [|f_equal].
  - (* Ainv *)
    extensionality a. extensionality b. norm_state.
    reframe (tA K b) s0.
    destruct (Nat.eqb_spec a K) as [Ha|Ha]; cbn [andb].
    + subst a. replace (K <? S K)%nat with true by (symmetry; apply Nat.ltb_lt; lia). cbn [andb].
      destruct (Nat.ltb_spec b nl) as [Hb|Hb]; [apply HV; exact Hb|].
      unfold upd2. rewrite Nat.eqb_refl, Nat.ltb_irrefl. cbn [andb].
      destruct (Nat.eqb_spec b K) as [Hbk|Hbk]; [lia|]. replace (b <? nl)%nat with false by (symmetry; apply Nat.ltb_ge; lia). reflexivity.
    + unfold upd2. replace (Nat.eqb a K) with false by (symmetry; apply Nat.eqb_neq; exact Ha). cbn [andb].
      destruct (Nat.ltb_spec a K) as [H1|H1]; destruct (Nat.ltb_spec a (S K)) as [H2|H2]; try reflexivity; lia.
  - (* Atmp *)
    extensionality a. extensionality b. norm_state.
    reframe (tA K b) s0.
    destruct (Nat.eqb_spec a K) as [Ha|Ha]; cbn [andb].
    + subst a. replace (K <? S K)%nat with true by (symmetry; apply Nat.ltb_lt; lia). cbn [andb].
      destruct (Nat.ltb_spec b nl) as [Hb|Hb]; [apply HV; exact Hb|]. rewrite Nat.ltb_irrefl. reflexivity.
    + destruct (Nat.ltb_spec a K) as [H1|H1]; destruct (Nat.ltb_spec a (S K)) as [H2|H2]; try reflexivity; lia.
Qed.

Lemma AA_main_char s0 K : (K <= nl)%nat ->
  for_range K AA_i (AA_zero (set_l_lwork NL (set_l_info 0%Z s0))) = AA_closed s0 K.
Proof.
  induction K as [|K IH]; intros HK.
  - cbn [for_range]. rewrite AA_zero_char. unfold AA_closed. norm_state.
    rewrite (fill_empty2 (v_Atmp s0)) by (intros a b; reflexivity). destruct s0; reflexivity.
  - cbn [for_range]. rewrite IH by lia. apply AA_i_on_closed. lia.
Qed.

(* copy of the inverse into A *)
Lemma AA_copy_j_char i s : AA_copy_j i s = set_v_A (fun a b => if Nat.eqb a i && Nat.ltb b nl then v_Atmp s a b else v_A s a b) s.
Proof.
  unfold AA_copy_j. rewrite (row_assign2 L_A i nl (fun b s => v_Atmp s i b)) by reflexivity. cbn [ls lg L_A]. f_equal.
  extensionality a. extensionality b. destruct (Nat.eqb_spec a i) as [Ha|Ha]; [subst a|]; reflexivity.
Qed.
Lemma AA_copy_char s : AA_copy s = set_v_A (fun a b => if Nat.ltb a nl && Nat.ltb b nl then v_Atmp s a b else v_A s a b) s.
Proof.
  unfold AA_copy. apply (rows_assign2 L_A nl nl AA_copy_j (fun a b s => v_Atmp s a b)); [|reflexivity].
  intros i s1. apply AA_copy_j_char.
Qed.

(* ---- make_AAinv, all sizes, any initial state ---- *)
Theorem make_AAinv_char s0 :
  make_AAinv fo orc NT NL s0 =
  let s1 := AA_closed s0 nl in
  match o_inv orc nl (v_Atmp s1) with
  | None => (s1, (-1)%Z)
  | Some Y => (set_v_A (fun a b => if Nat.ltb a nl && Nat.ltb b nl then Y a b else v_A s0 a b) (set_v_Atmp Y s1), 0%Z)
  end.
Proof.
  rewrite AAinv_mirror. unfold make_AAinv_mirror, AA_main. rewrite AA_main_char by lia. cbv zeta.
  destruct (o_inv orc nl (v_Atmp (AA_closed s0 nl))) as [Y|]; [|reflexivity].
  rewrite AA_copy_char. reflexivity.
Qed.

(* ================= make_bBBinv ================= *)
Definition tb (n : nat) (s : st) (i : nat) : F := fmul fo (v_M_T s i n) (v_mu s i).
Definition tB (n m : nat) (s : st) (i : nat) : F := fmul fo (fmul fo (v_M_T s i n) (v_Lambda s i)) (v_M_T s i m).
Definition tBi (n m : nat) (s : st) (i j : nat) : F :=
  fmul fo (fmul fo (fmul fo (fmul fo (v_s_ivar s n) (v_M_T s i n)) (v_A s i j)) (v_M_T s j m)) (v_s_ivar s m).

Definition BB1_i (n : nat) (s : st) : st := for_range nl (fun i s => set_v_b (upd1 (v_b s) n (fadd fo (v_b s n) (tb n s i))) s) s.
Definition BB1_m (n : nat) (s : st) : st := for_range nt (fun m s => set_v_B (upd2 (v_B s) n m (fz fo 0)) s) s.
Definition BB1_n (n : nat) (s : st) : st := let s := set_v_b (upd1 (v_b s) n (fz fo 0)) s in let s := BB1_i n s in BB1_m n s.
Definition BB1 (s : st) : st := for_range nt BB1_n s.

Definition BB2_i (n m : nat) (s : st) : st := for_range nl (fun i s => set_v_B (upd2 (v_B s) n m (fadd fo (v_B s n m) (tB n m s i))) s) s.
Definition BB2_m (n m : nat) (s : st) : st :=
  let s := set_v_Binv (upd2 (v_Binv s) n m (fz fo 0)) s in let s := BB2_i n m s in set_v_Btmp (upd2 (v_Btmp s) n m (v_B s n m)) s.
Definition BB2_n (n : nat) (s : st) : st := let s := set_v_B (upd2 (v_B s) n n (fdiv fo (fz fo 1) (v_s_ivar s n))) s in for_range nt (BB2_m n) s.
Definition BB2 (s : st) : st := for_range nt BB2_n s.

Definition BB3_j (n i m : nat) (s : st) : st :=
  for_range nl (fun j s => set_v_Binv (upd2 (v_Binv s) n m (fsub fo (v_Binv s n m) (tBi n m s i j))) s) s.
Definition BB3_m (n i : nat) (s : st) : st := for_range nt (BB3_j n i) s.
Definition BB3_i (n : nat) (s : st) : st := for_range nl (BB3_m n) s.
Definition BB3_n (n : nat) (s : st) : st := let s := set_v_Binv (upd2 (v_Binv s) n n (v_s_ivar s n)) s in BB3_i n s.
Definition BB3 (s : st) : st := for_range nt BB3_n s.

Definition BB4 (s : st) : st :=
  for_range nt (fun i s => set_l_log_det_val (fadd fo (l_log_det_val s) (flog fo (fmul fo (fmul fo (fz fo 2) (fpi fo)) (fabs fo (v_Btmp s i i))))) s) s.

Definition make_bBBinv_mirror (s : st) : st * F :=
  let s := BB3 (BB2 (BB1 (set_l_info 0%Z s))) in
  match o_lu orc nt (v_Btmp s) with
  | None => (s, finf fo)
  | Some Y => let s := BB4 (set_l_log_det_val (fz fo 0) (set_v_Btmp Y s)) in (s, l_log_det_val s)
  end.
Lemma bBBinv_mirror s : make_bBBinv fo orc NT NL s = make_bBBinv_mirror s.
Proof. unfold make_bBBinv, make_bBBinv_mirror. rewrite !Nat2Z.id. reflexivity. Qed.

Definition b_val (s : st) (n : nat) : F := sum_from (fz fo 0) nl (tb n s).
Definition B_val (s : st) (n m : nat) : F := sum_from (if Nat.eqb n m then fdiv fo (fz fo 1) (v_s_ivar s n) else fz fo 0) nl (tB n m s).
Definition Binv_val (s : st) (n m : nat) : F :=
  for_range nl (fun i acc => dif_from acc nl (tBi n m s i)) (if Nat.eqb n m then v_s_ivar s n else fz fo 0).
Definition logdet_val (Y : arr2 F) : F := sum_from (fz fo 0) nt (fun i => flog fo (fmul fo (fmul fo (fz fo 2) (fpi fo)) (fabs fo (Y i i)))).

(* --- first loop: b and the zeroing of B --- *)
Definition BB1_closed (s0 : st) (K : nat) : st :=
  set_v_B (fun a b => if Nat.ltb a K && Nat.ltb b nt then fz fo 0 else v_B s0 a b)
    (set_v_b (fun a => if Nat.ltb a K then b_val s0 a else v_b s0 a) s0).

Lemma BB1_i_char n s : BB1_i n s = set_v_b (upd1 (v_b s) n (sum_from (v_b s n) nl (tb n s))) s.
Proof. unfold BB1_i. apply (acc_cell1 L_b (fadd fo) n nl (fun i s => tb n s i)). reflexivity. Qed.
Lemma BB1_m_char n s : BB1_m n s = set_v_B (fun a b => if Nat.eqb a n && Nat.ltb b nt then fz fo 0 else v_B s a b) s.
Proof. unfold BB1_m. apply (row_assign2 L_B n nt (fun _ _ => fz fo 0)). reflexivity. Qed.

Lemma BB1_n_on_closed s0 K : BB1_n K (BB1_closed s0 K) = BB1_closed s0 (S K).
Proof.
  unfold BB1_n. cbv zeta. rewrite BB1_m_char, BB1_i_char. unfold BB1_closed. norm_state. rewrite upd1_same, upd1_upd1.
  f_equal; [|f_equal].
  - extensionality a. extensionality b.
    destruct (Nat.eqb_spec a K) as [Ha|Ha]; cbn [andb].
    + subst a. replace (K <? S K)%nat with true by (symmetry; apply Nat.ltb_lt; lia). cbn [andb]. destruct (b <? nt)%nat; [reflexivity|].
      rewrite Nat.ltb_irrefl. reflexivity.
    + destruct (Nat.ltb_spec a K) as [H1|H1]; destruct (Nat.ltb_spec a (S K)) as [H2|H2]; try reflexivity; lia.
  - reframe (tb K) s0. change (sum_from (fz fo 0) nl (tb K s0)) with (b_val s0 K). rewrite (upd1_fill (v_b s0) K (b_val s0)). reflexivity.
Qed.
Lemma BB1_char s0 : BB1 s0 = BB1_closed s0 nt.
Proof.
  unfold BB1. assert (H : forall K, for_range K BB1_n s0 = BB1_closed s0 K).
  { induction K as [|K IH]; cbn [for_range].
    - unfold BB1_closed. rewrite fill_empty2 by (intros a b; reflexivity). destruct s0; reflexivity.
    - rewrite IH. apply BB1_n_on_closed. }
  apply H.
Qed.

(* --- second loop: B = diag(1/w) + M Lambda M^T, its copy Btmp, and the zeroing of Binv --- *)
Lemma BB2_i_char n m s : BB2_i n m s = set_v_B (upd2 (v_B s) n m (sum_from (v_B s n m) nl (tB n m s))) s.
Proof. unfold BB2_i. apply (acc_cell2 L_B (fadd fo) n m nl (fun i s => tB n m s i)). reflexivity. Qed.
Lemma BB2_m_char n m s :
  BB2_m n m s = set_v_B (upd2 (v_B s) n m (sum_from (v_B s n m) nl (tB n m s)))
                  (set_v_Binv (upd2 (v_Binv s) n m (fz fo 0))
                     (set_v_Btmp (upd2 (v_Btmp s) n m (sum_from (v_B s n m) nl (tB n m s))) s)).
Proof.
  unfold BB2_m. cbv zeta. rewrite BB2_i_char. norm_state. rewrite upd2_same.
  reframe (tB n m) s. reflexivity.
Qed.
Lemma BB2_m_sweep n K s :
  for_range K (BB2_m n) s
  = set_v_B (fun a b => if Nat.eqb a n && Nat.ltb b K then sum_from (v_B s n b) nl (tB n b s) else v_B s a b)
      (set_v_Binv (fun a b => if Nat.eqb a n && Nat.ltb b K then fz fo 0 else v_Binv s a b)
         (set_v_Btmp (fun a b => if Nat.eqb a n && Nat.ltb b K then sum_from (v_B s n b) nl (tB n b s) else v_Btmp s a b) s)).
Proof.
  induction K as [|K IH].
  - cbn [for_range]. rewrite !fill_empty2 by (intros a b; rewrite andb_false_r; reflexivity). destruct s; reflexivity.
  - cbn [for_range]. rewrite IH, BB2_m_char. norm_state. rewrite Nat.eqb_refl, Nat.ltb_irrefl. cbn [andb].
    reframe (tB n K) s.
    rewrite (upd2_fill_row (v_B s) n K (fun b => sum_from (v_B s n b) nl (tB n b s))).
    rewrite (upd2_fill_row (v_Btmp s) n K (fun b => sum_from (v_B s n b) nl (tB n b s))).
    rewrite (upd2_fill_row (v_Binv s) n K (fun _ => fz fo 0)). reflexivity.
Qed.

Definition BB2_closed (s0 : st) (K : nat) : st :=
  set_v_B (fun a b => if Nat.ltb a K && Nat.ltb b nt then B_val s0 a b else v_B s0 a b)
    (set_v_Binv (fun a b => if Nat.ltb a K && Nat.ltb b nt then fz fo 0 else v_Binv s0 a b)
       (set_v_Btmp (fun a b => if Nat.ltb a K && Nat.ltb b nt then B_val s0 a b else v_Btmp s0 a b) s0)).

Ltac rows_case a K :=
  destruct (Nat.eqb_spec a K) as [?Ha|?Ha]; cbn [andb];
  [subst a; replace (K <? S K)%nat with true by (symmetry; apply Nat.ltb_lt; lia); rewrite ?Nat.ltb_irrefl; cbn [andb]
  | unfold upd2, upd1; repeat (replace (Nat.eqb a K) with false by (symmetry; apply Nat.eqb_neq; assumption)); cbn [andb];
    destruct (Nat.ltb_spec a K) as [?H1|?H1]; destruct (Nat.ltb_spec a (S K)) as [?H2|?H2]; try reflexivity; try lia].

Lemma BB2_n_on_closed s0 K :
  (forall a b, (a < nt)%nat -> (b < nt)%nat -> v_B s0 a b = fz fo 0) -> (K < nt)%nat ->
  BB2_n K (BB2_closed s0 K) = BB2_closed s0 (S K).
Proof.
  intros Hz HK. unfold BB2_n. cbv zeta. rewrite BB2_m_sweep. unfold BB2_closed. norm_state.
  assert (HV : forall b, (b < nt)%nat ->
            sum_from (upd2 (fun a0 b0 => if Nat.ltb a0 K && Nat.ltb b0 nt then B_val s0 a0 b0 else v_B s0 a0 b0) K K
                           (fdiv fo (fz fo 1) (v_s_ivar s0 K)) K b) nl (tB K b s0) = B_val s0 K b).
  { intros b Hb. unfold B_val, upd2. rewrite Nat.eqb_refl, Nat.ltb_irrefl. cbn [andb]. rewrite (Nat.eqb_sym b K).
    destruct (Nat.eqb K b); [reflexivity|]. rewrite Hz by lia. reflexivity. }
  f_equal; [|f_equal; [|f_equal]].
  - extensionality a. extensionality b. norm_state. reframe (tB K b) s0. rows_case a K.
    destruct (Nat.ltb_spec b nt) as [Hb|Hb]; [apply HV; exact Hb|].
    unfold upd2. rewrite Nat.eqb_refl, Nat.ltb_irrefl. cbn [andb]. destruct (Nat.eqb_spec b K) as [Hbk|Hbk]; [lia|]. reflexivity.
  - extensionality a. extensionality b. rows_case a K. destruct (b <? nt)%nat; reflexivity.
  - extensionality a. extensionality b. norm_state. reframe (tB K b) s0. rows_case a K.
    destruct (Nat.ltb_spec b nt) as [Hb|Hb]; [apply HV; exact Hb|reflexivity].
Qed.
Lemma BB2_char s0 :
  (forall a b, (a < nt)%nat -> (b < nt)%nat -> v_B s0 a b = fz fo 0) -> BB2 s0 = BB2_closed s0 nt.
Proof.
  intros Hz. unfold BB2. assert (H : forall K, (K <= nt)%nat -> for_range K BB2_n s0 = BB2_closed s0 K).
  { induction K as [|K IH]; intros HK; cbn [for_range].
    - unfold BB2_closed. rewrite !fill_empty2 by (intros a b; reflexivity). destruct s0; reflexivity.
    - rewrite IH by lia. apply BB2_n_on_closed; [exact Hz|lia]. }
  apply H. lia.
Qed.

(* --- third loop: Binv by the Woodbury expression --- *)
(* one row updated cell by cell, each new value a function of the cell's old value *)
Lemma row_update2 (L : lens2) i K (h : nat -> F -> st -> F) s0 :
  (forall j x y s, h j x (ls L y s) = h j x s) ->
  for_range K (fun j s => ls L (upd2 (lg L s) i j (h j (lg L s i j) s)) s) s0
  = ls L (fun a b => if Nat.eqb a i && Nat.ltb b K then h b (lg L s0 i b) s0 else lg L s0 a b) s0.
Proof.
  intros Hh. induction K as [|K IH].
  - cbn [for_range]. rewrite fill_empty2 by (intros a b; rewrite andb_false_r; reflexivity). rewrite lsg. reflexivity.
  - cbn [for_range]. rewrite IH, lgs, lss, Hh. rewrite Nat.eqb_refl, Nat.ltb_irrefl. cbn [andb].
    rewrite (upd2_fill_row (lg L s0) i K (fun b => h b (lg L s0 i b) s0)). reflexivity.
Qed.

Lemma BB3_j_char n i m s : BB3_j n i m s = set_v_Binv (upd2 (v_Binv s) n m (dif_from (v_Binv s n m) nl (tBi n m s i))) s.
Proof. unfold BB3_j. apply (acc_cell2 L_Binv (fsub fo) n m nl (fun j s => tBi n m s i j)). reflexivity. Qed.
Lemma BB3_m_char n i s :
  BB3_m n i s = set_v_Binv (fun a b => if Nat.eqb a n && Nat.ltb b nt then dif_from (v_Binv s n b) nl (tBi n b s i) else v_Binv s a b) s.
Proof.
  unfold BB3_m. rewrite (for_range_ext nt (BB3_j n i) (fun m s => set_v_Binv (upd2 (v_Binv s) n m (dif_from (v_Binv s n m) nl (tBi n m s i))) s))
    by (intros m s1 _; apply BB3_j_char).
  apply (row_update2 L_Binv n nt (fun m x s => dif_from x nl (tBi n m s i))). reflexivity.
Qed.
Definition Binv_iter (s : st) (n b : nat) (K : nat) (x : F) : F := for_range K (fun i acc => dif_from acc nl (tBi n b s i)) x.
Lemma BB3_i_sweep n K s :
  for_range K (BB3_m n) s
  = set_v_Binv (fun a b => if Nat.eqb a n && Nat.ltb b nt then Binv_iter s n b K (v_Binv s n b) else v_Binv s a b) s.
Proof.
  induction K as [|K IH].
  - cbn [for_range]. replace (fun a b => if Nat.eqb a n && Nat.ltb b nt then Binv_iter s n b 0 (v_Binv s n b) else v_Binv s a b) with (v_Binv s).
    + destruct s; reflexivity.
    + extensionality a. extensionality b. destruct (Nat.eqb_spec a n) as [Ha|Ha]; cbn [andb]; [subst a|reflexivity].
      destruct (b <? nt)%nat; reflexivity.
  - cbn [for_range]. rewrite IH, BB3_m_char. norm_state. f_equal.
    extensionality a. extensionality b. rewrite Nat.eqb_refl. cbn [andb].
    destruct (Nat.eqb_spec a n) as [Ha|Ha]; cbn [andb]; [|reflexivity].
    destruct (Nat.ltb_spec b nt) as [Hb|Hb]; [|reflexivity].
    reframe (tBi n b) s. reflexivity.
Qed.
Lemma BB3_n_char n s :
  BB3_n n s = set_v_Binv (fun a b => if Nat.eqb a n && Nat.ltb b nt then Binv_iter s n b nl (if Nat.eqb b n then v_s_ivar s n else v_Binv s n b)
                                     else if Nat.eqb a n && Nat.eqb b n then v_s_ivar s n else v_Binv s a b) s.
Proof.
  unfold BB3_n, BB3_i. cbv zeta. rewrite BB3_i_sweep. norm_state. f_equal.
  extensionality a. extensionality b. unfold upd2. rewrite Nat.eqb_refl. cbn [andb].
  destruct (Nat.eqb_spec a n) as [Ha|Ha]; cbn [andb]; [|reflexivity].
  destruct (Nat.ltb_spec b nt) as [Hb|Hb]; [|reflexivity].
  unfold Binv_iter. apply for_range_ext. intros i acc _. reframe (tBi n b) s. reflexivity.
Qed.

Definition BB3_closed (s0 : st) (K : nat) : st :=
  set_v_Binv (fun a b => if Nat.ltb a K && Nat.ltb b nt then Binv_val s0 a b else v_Binv s0 a b) s0.
Lemma BB3_n_on_closed s0 K :
  (forall a b, (a < nt)%nat -> (b < nt)%nat -> v_Binv s0 a b = fz fo 0) -> (K < nt)%nat ->
  BB3_n K (BB3_closed s0 K) = BB3_closed s0 (S K).
Proof.
  intros Hz HK. rewrite BB3_n_char. unfold BB3_closed. norm_state. f_equal.
  extensionality a. extensionality b. rewrite Nat.ltb_irrefl. cbn [andb]. rows_case a K.
  destruct (Nat.ltb_spec b nt) as [Hb|Hb].
  - unfold Binv_val, Binv_iter. rewrite (Nat.eqb_sym b K).
    destruct (Nat.eqb K b) eqn:E; [|rewrite Hz by lia]; apply for_range_ext; intros i acc _; reframe (tBi K b) s0; reflexivity.
  - destruct (Nat.eqb_spec b K) as [Hbk|Hbk]; [lia|]. reflexivity.
Qed.
Lemma BB3_char s0 :
  (forall a b, (a < nt)%nat -> (b < nt)%nat -> v_Binv s0 a b = fz fo 0) -> BB3 s0 = BB3_closed s0 nt.
Proof.
  intros Hz. unfold BB3. assert (H : forall K, (K <= nt)%nat -> for_range K BB3_n s0 = BB3_closed s0 K).
  { induction K as [|K IH]; intros HK; cbn [for_range].
    - unfold BB3_closed. rewrite fill_empty2 by (intros a b; reflexivity). destruct s0; reflexivity.
    - rewrite IH by lia. apply BB3_n_on_closed; [exact Hz|lia]. }
  apply H. lia.
Qed.

(* --- log-determinant accumulation, and make_bBBinv as a whole --- *)
Lemma BB4_sweep K s :
  for_range K (fun i s => set_l_log_det_val (fadd fo (l_log_det_val s) (flog fo (fmul fo (fmul fo (fz fo 2) (fpi fo)) (fabs fo (v_Btmp s i i))))) s) s
  = set_l_log_det_val (fold_from (fadd fo) (l_log_det_val s) K (fun i => flog fo (fmul fo (fmul fo (fz fo 2) (fpi fo)) (fabs fo (v_Btmp s i i))))) s.
Proof.
  induction K as [|K IH].
  - cbn [for_range]. unfold fold_from. cbn [for_range]. destruct s; reflexivity.
  - cbn [for_range]. rewrite IH. norm_state. rewrite fold_from_S. reflexivity.
Qed.

(* state after the three loops, in terms of the initial state *)
Definition bB_closed (s0 : st) : st :=
  set_v_B (fun a b => if Nat.ltb a nt && Nat.ltb b nt then B_val s0 a b else v_B s0 a b)
    (set_v_Binv (fun a b => if Nat.ltb a nt && Nat.ltb b nt then Binv_val s0 a b else v_Binv s0 a b)
       (set_v_Btmp (fun a b => if Nat.ltb a nt && Nat.ltb b nt then B_val s0 a b else v_Btmp s0 a b)
          (set_v_b (fun a => if Nat.ltb a nt then b_val s0 a else v_b s0 a) (set_l_info 0%Z s0)))).

Lemma chain_bB (X X' Y Y' Z Z' : arr2 F) (W W' : arr1 F) (s : st) :
  X = X' -> Y = Y' -> Z = Z' -> W = W' ->
  set_v_B X (set_v_Binv Y (set_v_Btmp Z (set_v_b W s))) = set_v_B X' (set_v_Binv Y' (set_v_Btmp Z' (set_v_b W' s))).
Proof. intros; subst; reflexivity. Qed.

Lemma bB_loops_char s0 : BB3 (BB2 (BB1 (set_l_info 0%Z s0))) = bB_closed s0.
Proof.
  rewrite BB1_char.
  rewrite BB2_char.
  2:{ intros a b Ha Hb. unfold BB1_closed. norm_state.
      replace (a <? nt)%nat with true by (symmetry; apply Nat.ltb_lt; lia).
      replace (b <? nt)%nat with true by (symmetry; apply Nat.ltb_lt; lia). reflexivity. }
  rewrite BB3_char.
  2:{ intros a b Ha Hb. unfold BB2_closed. norm_state.
      replace (a <? nt)%nat with true by (symmetry; apply Nat.ltb_lt; lia).
      replace (b <? nt)%nat with true by (symmetry; apply Nat.ltb_lt; lia). reflexivity. }
  unfold BB3_closed, BB2_closed, BB1_closed, bB_closed. norm_state.
  apply chain_bB.
  - extensionality a. extensionality b.
    destruct (Nat.ltb a nt && Nat.ltb b nt) eqn:E; [|rewrite ?E; reflexivity]. rewrite ?E.
    unfold B_val. norm_state. reframe (tB a b) s0. reflexivity.
  - extensionality a. extensionality b.
    destruct (Nat.ltb a nt && Nat.ltb b nt) eqn:E; [|rewrite ?E; reflexivity]. rewrite ?E.
    unfold Binv_val. norm_state. apply for_range_ext. intros i acc _. reframe (tBi a b) s0. reflexivity.
  - extensionality a. extensionality b.
    destruct (Nat.ltb a nt && Nat.ltb b nt) eqn:E; [|rewrite ?E; reflexivity]. rewrite ?E.
    unfold B_val. norm_state. reframe (tB a b) s0. reflexivity.
  - extensionality a. destruct (Nat.ltb a nt) eqn:E; [|norm_state; reflexivity].
    unfold b_val. reframe (tb a) s0. reflexivity.
Qed.

Theorem make_bBBinv_char s0 :
  make_bBBinv fo orc NT NL s0 =
  let sB := bB_closed s0 in
  match o_lu orc nt (v_Btmp sB) with
  | None => (sB, finf fo)
  | Some Y => (set_l_log_det_val (logdet_val Y) (set_v_Btmp Y sB), logdet_val Y)
  end.
Proof.
  rewrite bBBinv_mirror. unfold make_bBBinv_mirror. rewrite bB_loops_char. cbv zeta.
  destruct (o_lu orc nt (v_Btmp (bB_closed s0))) as [Y|]; [|reflexivity].
  unfold BB4. rewrite BB4_sweep. norm_state. reflexivity.
Qed.

(* ================= likelihood_worker ================= *)
Definition tchi (n m : nat) (s : st) : F := fmul fo (fmul fo (fsub fo (v_b s m) (v_rv s m)) (v_Binv s n m)) (fsub fo (v_b s n) (v_rv s n)).
Definition ta (n : nat) (s : st) (i : nat) : F := fmul fo (fmul fo (v_M_T s i n) (v_s_ivar s n)) (v_rv s n).
Definition LW_chi_m (n : nat) (s : st) : st := for_range nt (fun m s => set_l_chi2 (fadd fo (l_chi2 s) (tchi n m s)) s) s.
Definition LW_chi (s : st) : st := for_range nt LW_chi_m s.
Definition LW_a0 (s : st) : st := for_range nl (fun i s => set_v_a (upd1 (v_a s) i (fz fo 0)) s) s.
Definition LW_a1_i (n : nat) (s : st) : st := for_range nl (fun i s => set_v_a (upd1 (v_a s) i (fadd fo (v_a s i) (ta n s i))) s) s.
Definition LW_a1 (s : st) : st := for_range nt LW_a1_i s.
Definition LW_a2 (s : st) : st := for_range nl (fun i s => set_v_a (upd1 (v_a s) i (fadd fo (v_a s i) (fdiv fo (v_mu s i) (v_Lambda s i)))) s) s.
Definition LW_cp_j (i : nat) (s : st) : st := for_range nl (fun j s => set_v_Atmp (upd2 (v_Atmp s) i j (v_Ainv s i j)) s) s.
Definition LW_cp (s : st) : st := for_range nl LW_cp_j s.
Definition LW_result (s : st) : F := fmul fo (fopp fo (fdiv fo (fz fo 1) (fz fo 2))) (fadd fo (l_chi2 s) (l_log_det_val s)).

Definition likelihood_worker_mirror (mk : Z) (s : st) : st * F :=
  let s := set_l_lwork NT (set_l_info 0%Z (set_l_nrhs 1%Z s)) in
  let s := (let '(s1, r) := make_AAinv fo orc NT NL s in set_l_info r s1) in
  if (l_info s <? 0)%Z then (s, finf fo)
  else
    let s := (let '(s1, r) := make_bBBinv fo orc NT NL s in set_l_log_det_val r s1) in
    let s := LW_chi (set_l_chi2 (fz fo 0) s) in
    if (mk =? 1)%Z then
      let s := LW_cp (LW_a2 (LW_a1 (LW_a0 s))) in
      match o_solve orc nl (v_Atmp s) (v_a s) with
      | None => (s, finf fo)
      | Some x => let s := set_v_a x s in (s, LW_result s)
      end
    else (s, LW_result s).
Lemma worker_mirror mk s : likelihood_worker fo orc NT NL mk s = likelihood_worker_mirror mk s.
Proof. unfold likelihood_worker, likelihood_worker_mirror. rewrite !Nat2Z.id. reflexivity. Qed.

(* chi^2: sum over n of sum over m, in loop order *)
Definition chi2_val (s : st) : F := for_range nt (fun n acc => fold_from (fadd fo) acc nt (fun m => tchi n m s)) (fz fo 0).
Lemma LW_chi_m_char n s : LW_chi_m n s = set_l_chi2 (fold_from (fadd fo) (l_chi2 s) nt (fun m => tchi n m s)) s.
Proof.
  unfold LW_chi_m. assert (H : forall K, for_range K (fun m s => set_l_chi2 (fadd fo (l_chi2 s) (tchi n m s)) s) s
                                     = set_l_chi2 (fold_from (fadd fo) (l_chi2 s) K (fun m => tchi n m s)) s).
  { induction K as [|K IH]; cbn [for_range].
    - unfold fold_from. cbn [for_range]. destruct s; reflexivity.
    - rewrite IH. norm_state. rewrite fold_from_S. reframe (tchi n K) s. reflexivity. }
  apply H.
Qed.
Lemma LW_chi_char s : LW_chi (set_l_chi2 (fz fo 0) s) = set_l_chi2 (chi2_val s) s.
Proof.
  unfold LW_chi, chi2_val.
  assert (H : forall K, for_range K LW_chi_m (set_l_chi2 (fz fo 0) s)
                        = set_l_chi2 (for_range K (fun n acc => fold_from (fadd fo) acc nt (fun m => tchi n m s)) (fz fo 0)) s).
  { induction K as [|K IH]; cbn [for_range]; [reflexivity|].
    rewrite IH, LW_chi_m_char. norm_state. reflexivity. }
  apply H.
Qed.

(* right-hand side of the posterior-mean system: a[i] = sum_n M_T[i,n] w[n] y[n] + mu[i]/Lambda[i] *)
Definition a_rhs (s : st) (i : nat) : F := fadd fo (fold_from (fadd fo) (fz fo 0) nt (fun n => ta n s i)) (fdiv fo (v_mu s i) (v_Lambda s i)).
Lemma vec_assign1 (L : lens1) K (v : nat -> st -> F) s0 :
  (forall i x s, v i (ls1 L x s) = v i s) ->
  for_range K (fun i s => ls1 L (upd1 (lg1 L s) i (v i s)) s) s0 = ls1 L (fun a => if Nat.ltb a K then v a s0 else lg1 L s0 a) s0.
Proof.
  intros Hv. induction K as [|K IH]; cbn [for_range].
  - replace (fun a => if Nat.ltb a 0 then v a s0 else lg1 L s0 a) with (lg1 L s0) by (extensionality a; reflexivity). rewrite lsg1. reflexivity.
  - rewrite IH, lgs1, lss1, Hv. rewrite (upd1_fill (lg1 L s0) K (fun a => v a s0)). reflexivity.
Qed.
(* every cell i < K updated from its own old value *)
Lemma vec_update1 (L : lens1) K (h : nat -> F -> st -> F) s0 :
  (forall i x y s, h i x (ls1 L y s) = h i x s) ->
  for_range K (fun i s => ls1 L (upd1 (lg1 L s) i (h i (lg1 L s i) s)) s) s0
  = ls1 L (fun a => if Nat.ltb a K then h a (lg1 L s0 a) s0 else lg1 L s0 a) s0.
Proof.
  intros Hh. induction K as [|K IH]; cbn [for_range].
  - replace (fun a => if Nat.ltb a 0 then h a (lg1 L s0 a) s0 else lg1 L s0 a) with (lg1 L s0) by (extensionality a; reflexivity). rewrite lsg1. reflexivity.
  - rewrite IH, lgs1, lss1, Hh. rewrite Nat.ltb_irrefl. rewrite (upd1_fill (lg1 L s0) K (fun a => h a (lg1 L s0 a) s0)). reflexivity.
Qed.
Lemma LW_a0_char s : LW_a0 s = set_v_a (fun a => if Nat.ltb a nl then fz fo 0 else v_a s a) s.
Proof. unfold LW_a0. apply (vec_assign1 L_a nl (fun _ _ => fz fo 0)). reflexivity. Qed.
Lemma LW_a1_i_char n s : LW_a1_i n s = set_v_a (fun a => if Nat.ltb a nl then fadd fo (v_a s a) (ta n s a) else v_a s a) s.
Proof. unfold LW_a1_i. apply (vec_update1 L_a nl (fun i x s => fadd fo x (ta n s i))). reflexivity. Qed.
Lemma LW_a1_char s : LW_a1 s = set_v_a (fun a => if Nat.ltb a nl then fold_from (fadd fo) (v_a s a) nt (fun n => ta n s a) else v_a s a) s.
Proof.
  unfold LW_a1.
  assert (H : forall K, for_range K LW_a1_i s = set_v_a (fun a => if Nat.ltb a nl then fold_from (fadd fo) (v_a s a) K (fun n => ta n s a) else v_a s a) s).
  { induction K as [|K IH]; cbn [for_range].
    - replace (fun a => if Nat.ltb a nl then fold_from (fadd fo) (v_a s a) 0 (fun n => ta n s a) else v_a s a) with (v_a s)
        by (extensionality a; destruct (Nat.ltb a nl); reflexivity). destruct s; reflexivity.
    - rewrite IH, LW_a1_i_char. norm_state. f_equal. extensionality a. destruct (Nat.ltb a nl); [|reflexivity].
      rewrite fold_from_S. reframe (ta K) s. reflexivity. }
  apply H.
Qed.
Lemma LW_a2_char s : LW_a2 s = set_v_a (fun a => if Nat.ltb a nl then fadd fo (v_a s a) (fdiv fo (v_mu s a) (v_Lambda s a)) else v_a s a) s.
Proof. unfold LW_a2. apply (vec_update1 L_a nl (fun i x s => fadd fo x (fdiv fo (v_mu s i) (v_Lambda s i)))). reflexivity. Qed.
Lemma LW_cp_char s : LW_cp s = set_v_Atmp (fun a b => if Nat.ltb a nl && Nat.ltb b nl then v_Ainv s a b else v_Atmp s a b) s.
Proof.
  unfold LW_cp. apply (rows_assign2 L_Atmp nl nl LW_cp_j (fun a b s => v_Ainv s a b)); [|reflexivity].
  intros i s1. unfold LW_cp_j. rewrite (row_assign2 L_Atmp i nl (fun b s => v_Ainv s i b)) by reflexivity. cbn [ls lg L_Atmp]. f_equal.
  extensionality a. extensionality b. destruct (Nat.eqb_spec a i) as [Ha|Ha]; [subst a|]; reflexivity.
Qed.
Lemma LW_a_block_char s :
  LW_cp (LW_a2 (LW_a1 (LW_a0 s)))
  = set_v_Atmp (fun a b => if Nat.ltb a nl && Nat.ltb b nl then v_Ainv s a b else v_Atmp s a b)
      (set_v_a (fun a => if Nat.ltb a nl then a_rhs s a else v_a s a) s).
Proof.
  rewrite LW_a0_char, LW_a1_char, LW_a2_char, LW_cp_char. norm_state. f_equal. f_equal.
  extensionality a. destruct (Nat.ltb a nl) eqn:E; [|reflexivity]. unfold a_rhs. reframe (ta) s. reflexivity.
Qed.

(* ================= the worker as a function of the configuration arrays ================= *)
(* pure closed forms over the arrays the worker only reads: M_T (design matrix, transposed), w (jittered inverse variances),
   mu / La (prior means / variances), y (velocities) *)
Section Pure.
Variables (MT : arr2 F) (w mu La y : arr1 F).
Definition pAinv (i j : nat) : F :=
  sum_from (if Nat.eqb i j then fdiv fo (fz fo 1) (La i) else fz fo 0) nt (fun n => fmul fo (fmul fo (MT j n) (w n)) (MT i n)).
Definition pb (n : nat) : F := sum_from (fz fo 0) nl (fun i => fmul fo (MT i n) (mu i)).
Definition pB (n m : nat) : F :=
  sum_from (if Nat.eqb n m then fdiv fo (fz fo 1) (w n) else fz fo 0) nl (fun i => fmul fo (fmul fo (MT i n) (La i)) (MT i m)).
Definition pBinv (A : arr2 F) (n m : nat) : F :=
  for_range nl (fun i acc => dif_from acc nl (fun j => fmul fo (fmul fo (fmul fo (fmul fo (w n) (MT i n)) (A i j)) (MT j m)) (w m)))
            (if Nat.eqb n m then w n else fz fo 0).
Definition pchi2 (A : arr2 F) : F :=
  for_range nt (fun n acc => fold_from (fadd fo) acc nt
     (fun m => fmul fo (fmul fo (fsub fo (pb m) (y m)) (pBinv A n m)) (fsub fo (pb n) (y n)))) (fz fo 0).
Definition pa_rhs (i : nat) : F :=
  fadd fo (fold_from (fadd fo) (fz fo 0) nt (fun n => fmul fo (fmul fo (MT i n) (w n)) (y n))) (fdiv fo (mu i) (La i)).
Definition pvalue (A U : arr2 F) : F := fmul fo (fopp fo (fdiv fo (fz fo 1) (fz fo 2))) (fadd fo (pchi2 A) (logdet_val U)).
End Pure.

Definition in2 (K W : nat) (a b : nat) : bool := Nat.ltb a K && Nat.ltb b W.

Section Worker.
Variable s0 : st.
Let MT := v_M_T s0. Let w := v_s_ivar s0. Let mu := v_mu s0. Let La := v_Lambda s0. Let y := v_rv s0.
(* what the two factorisation oracles are called on *)
Definition Atmp_arg : arr2 F := fun a b => if in2 nl nl a b then pAinv MT w La a b else v_Atmp s0 a b.
Definition Btmp_arg : arr2 F := fun a b => if in2 nt nt a b then pB MT w La a b else v_Btmp s0 a b.

Lemma Ainv_val_pure s i j : v_M_T s = MT -> v_s_ivar s = w -> v_Lambda s = La -> Ainv_val s i j = pAinv MT w La i j.
Proof. intros H1 H2 H3. unfold Ainv_val, pAinv, tA. rewrite H1, H2, H3. reflexivity. Qed.
Lemma b_val_pure s n : v_M_T s = MT -> v_mu s = mu -> b_val s n = pb MT mu n.
Proof. intros H1 H2. unfold b_val, pb, tb. rewrite H1, H2. reflexivity. Qed.
Lemma B_val_pure s n m : v_M_T s = MT -> v_s_ivar s = w -> v_Lambda s = La -> B_val s n m = pB MT w La n m.
Proof. intros H1 H2 H3. unfold B_val, pB, tB. rewrite H1, H2, H3. reflexivity. Qed.
Lemma Binv_val_pure s (A : arr2 F) n m :
  v_M_T s = MT -> v_s_ivar s = w -> (forall i j, (i < nl)%nat -> (j < nl)%nat -> v_A s i j = A i j) -> Binv_val s n m = pBinv MT w A n m.
Proof.
  intros H1 H2 H3. unfold Binv_val, pBinv. rewrite H2. apply for_range_ext. intros i acc Hi. apply fold_from_ext. intros j Hj.
  unfold tBi. rewrite H1, H2, H3 by assumption. reflexivity.
Qed.

(* state after make_AAinv succeeded with Y, and after make_bBBinv succeeded with U *)
Definition sA_ok (Y : arr2 F) : st :=
  set_l_info 0%Z (set_v_A (fun a b => if in2 nl nl a b then Y a b else v_A s0 a b)
     (set_v_Atmp Y (AA_closed (set_l_lwork NT (set_l_info 0%Z (set_l_nrhs 1%Z s0))) nl))).
Definition sB_ok (Y U : arr2 F) : st :=
  set_l_log_det_val (logdet_val U) (set_l_log_det_val (logdet_val U) (set_v_Btmp U (bB_closed (sA_ok Y)))).

Lemma worker_after_factorisations mk (Y U : arr2 F) :
  o_inv orc nl Atmp_arg = Some Y -> o_lu orc nt Btmp_arg = Some U ->
  likelihood_worker fo orc NT NL mk s0 =
  let s := set_l_chi2 (chi2_val (sB_ok Y U)) (sB_ok Y U) in
  if (mk =? 1)%Z then
    let s := LW_cp (LW_a2 (LW_a1 (LW_a0 s))) in
    match o_solve orc nl (v_Atmp s) (v_a s) with
    | None => (s, finf fo)
    | Some x => let s := set_v_a x s in (s, LW_result s)
    end
  else (s, LW_result s).
Proof.
  intros HY HU. rewrite worker_mirror. unfold likelihood_worker_mirror. cbv zeta.
  rewrite make_AAinv_char. cbv zeta.
  assert (EA : v_Atmp (AA_closed (set_l_lwork NT (set_l_info 0%Z (set_l_nrhs 1%Z s0))) nl) = Atmp_arg).
  { unfold AA_closed, Atmp_arg, in2. norm_state. extensionality a. extensionality b.
    destruct (Nat.ltb a nl && Nat.ltb b nl); [|reflexivity]. apply Ainv_val_pure; reflexivity. }
  rewrite EA, HY.
  change (set_l_info 0%Z (set_v_A (fun a b => if Nat.ltb a nl && Nat.ltb b nl then Y a b else v_A (set_l_lwork NT (set_l_info 0%Z (set_l_nrhs 1%Z s0))) a b)
            (set_v_Atmp Y (AA_closed (set_l_lwork NT (set_l_info 0%Z (set_l_nrhs 1%Z s0))) nl)))) with (sA_ok Y).
  change (l_info (sA_ok Y) <? 0)%Z with false. cbv iota.
  rewrite make_bBBinv_char. cbv zeta.
  assert (EB : v_Btmp (bB_closed (sA_ok Y)) = Btmp_arg).
  { unfold bB_closed, Btmp_arg, in2. norm_state. extensionality a. extensionality b.
    destruct (Nat.ltb a nt && Nat.ltb b nt); [|reflexivity]. apply B_val_pure; reflexivity. }
  rewrite EB, HU.
  change (set_l_log_det_val (logdet_val U) (set_l_log_det_val (logdet_val U) (set_v_Btmp U (bB_closed (sA_ok Y))))) with (sB_ok Y U).
  rewrite LW_chi_char. reflexivity.
Qed.

(* the value the worker computes: for every size and every initial state, if the inversion of Ainv returns Y and the LU of B
   returns U, chi^2 and the returned value are the closed forms over the configuration arrays alone *)
Lemma chi2_pure (Y U : arr2 F) : chi2_val (sB_ok Y U) = pchi2 MT w mu y Y.
Proof.
  unfold chi2_val, pchi2. apply for_range_ext. intros n acc Hn. apply fold_from_ext. intros m Hm. unfold tchi.
  assert (Hb : forall k, (k < nt)%nat -> v_b (sB_ok Y U) k = pb MT mu k).
  { intros k Hk. unfold sB_ok, bB_closed. norm_state. replace (k <? nt)%nat with true by (symmetry; apply Nat.ltb_lt; lia).
    apply b_val_pure; reflexivity. }
  assert (HBi : v_Binv (sB_ok Y U) n m = pBinv MT w Y n m).
  { unfold sB_ok, bB_closed. norm_state.
    replace (n <? nt)%nat with true by (symmetry; apply Nat.ltb_lt; lia).
    replace (m <? nt)%nat with true by (symmetry; apply Nat.ltb_lt; lia). cbn [andb].
    apply Binv_val_pure; [reflexivity|reflexivity|]. intros i j Hi Hj. unfold sA_ok, in2. norm_state.
    replace (i <? nl)%nat with true by (symmetry; apply Nat.ltb_lt; lia).
    replace (j <? nl)%nat with true by (symmetry; apply Nat.ltb_lt; lia). reflexivity. }
  rewrite !Hb by assumption. rewrite HBi. reflexivity.
Qed.

Theorem worker_value_marginal (Y U : arr2 F) :
  o_inv orc nl Atmp_arg = Some Y -> o_lu orc nt Btmp_arg = Some U ->
  snd (likelihood_worker fo orc NT NL 0%Z s0) = pvalue MT w mu y Y U.
Proof.
  intros HY HU. rewrite (worker_after_factorisations 0%Z Y U HY HU). cbv zeta. cbn [Z.eqb Pos.eqb snd].
  unfold LW_result, pvalue. norm_state. rewrite chi2_pure. unfold sB_ok. norm_state. reflexivity.
Qed.

(* posterior path (make_aAinv = 1): same value; the system handed to the solver is (Ainv, right-hand side) of the closed forms,
   and `a` holds what the solver returns *)
Theorem worker_posterior (Y U : arr2 F) (x : arr1 F) :
  o_inv orc nl Atmp_arg = Some Y -> o_lu orc nt Btmp_arg = Some U ->
  o_solve orc nl (fun a b => if in2 nl nl a b then pAinv MT w La a b else Y a b)
              (fun a => if Nat.ltb a nl then pa_rhs MT w mu La y a else v_a s0 a) = Some x ->
  snd (likelihood_worker fo orc NT NL 1%Z s0) = pvalue MT w mu y Y U /\
  v_a (fst (likelihood_worker fo orc NT NL 1%Z s0)) = x /\
  (forall i j, (i < nl)%nat -> (j < nl)%nat -> v_Ainv (fst (likelihood_worker fo orc NT NL 1%Z s0)) i j = pAinv MT w La i j).
Proof.
  intros HY HU Hx. rewrite (worker_after_factorisations 1%Z Y U HY HU). cbv zeta. cbn [Z.eqb Pos.eqb].
  rewrite LW_a_block_char.
  set (sC := set_l_chi2 (chi2_val (sB_ok Y U)) (sB_ok Y U)).
  assert (PAinv : v_Ainv sC = (fun a b => if Nat.ltb a nl && Nat.ltb b nl then Ainv_val (set_l_lwork NT (set_l_info 0%Z (set_l_nrhs 1%Z s0))) a b
                                           else if Nat.ltb a nl && Nat.ltb b nl then fz fo 0 else v_Ainv s0 a b)) by reflexivity.
  assert (PAtmp : v_Atmp sC = Y) by reflexivity.
  assert (Pa : v_a sC = v_a s0) by reflexivity.
  assert (Prhs : forall a, a_rhs sC a = pa_rhs MT w mu La y a) by (intros a; reflexivity).
  assert (E1 : v_Atmp (set_v_Atmp (fun a b => if Nat.ltb a nl && Nat.ltb b nl then v_Ainv sC a b else v_Atmp sC a b)
                 (set_v_a (fun a => if Nat.ltb a nl then a_rhs sC a else v_a sC a) sC))
               = (fun a b => if in2 nl nl a b then pAinv MT w La a b else Y a b)).
  { rewrite gs_v_Atmp__v_Atmp, PAinv, PAtmp. extensionality a. extensionality b. unfold in2.
    destruct (Nat.ltb a nl && Nat.ltb b nl) eqn:E; [|reflexivity]. apply Ainv_val_pure; reflexivity. }
  assert (E2 : v_a (set_v_Atmp (fun a b => if Nat.ltb a nl && Nat.ltb b nl then v_Ainv sC a b else v_Atmp sC a b)
                 (set_v_a (fun a => if Nat.ltb a nl then a_rhs sC a else v_a sC a) sC))
               = (fun a => if Nat.ltb a nl then pa_rhs MT w mu La y a else v_a s0 a)).
  { rewrite gs_v_a__v_Atmp, gs_v_a__v_a, Pa. extensionality a. destruct (Nat.ltb a nl); [apply Prhs|reflexivity]. }
  rewrite E1, E2, Hx. cbn [fst snd]. split; [|split].
  - unfold LW_result, pvalue.
    repeat first [rewrite gs_l_chi2__v_a | rewrite gs_l_chi2__v_Atmp | rewrite gs_l_log_det_val__v_a | rewrite gs_l_log_det_val__v_Atmp].
    change (l_chi2 sC) with (chi2_val (sB_ok Y U)). change (l_log_det_val sC) with (logdet_val U). rewrite chi2_pure. reflexivity.
  - rewrite gs_v_a__v_a. reflexivity.
  - intros i j Hi Hj. repeat first [rewrite gs_v_Ainv__v_a | rewrite gs_v_Ainv__v_Atmp]. rewrite PAinv.
    replace (i <? nl)%nat with true by (symmetry; apply Nat.ltb_lt; lia).
    replace (j <? nl)%nat with true by (symmetry; apply Nat.ltb_lt; lia). cbn [andb]. apply Ainv_val_pure; reflexivity.
Qed.
End Worker.

(* ================= independence of call history ================= *)
(* LAPACK reads and writes only the n x n block it is given: the oracles depend on, and are compared on, that block only *)
Definition agree2 (n m : nat) (X X' : arr2 F) : Prop := forall i j, (i < n)%nat -> (j < m)%nat -> X i j = X' i j.
Definition oracles_local : Prop :=
  (forall n a a', agree2 n n a a' ->
     match o_inv orc n a, o_inv orc n a' with Some Y, Some Y' => agree2 n n Y Y' | None, None => True | _, _ => False end) /\
  (forall n a a', agree2 n n a a' ->
     match o_lu orc n a, o_lu orc n a' with Some U, Some U' => forall i, (i < n)%nat -> U i i = U' i i | None, None => True | _, _ => False end).

Lemma pvalue_local MT w mu y (Y Y' U U' : arr2 F) :
  agree2 nl nl Y Y' -> (forall i, (i < nt)%nat -> U i i = U' i i) -> pvalue MT w mu y Y U = pvalue MT w mu y Y' U'.
Proof.
  intros HY HU. unfold pvalue. f_equal. f_equal.
  - unfold pchi2. apply for_range_ext. intros n acc Hn. apply fold_from_ext. intros m Hm. f_equal. f_equal.
    unfold pBinv. apply for_range_ext. intros i acc' Hi. apply fold_from_ext. intros j Hj. rewrite (HY i j Hi Hj). reflexivity.
  - unfold logdet_val. apply fold_from_ext. intros i Hi. rewrite (HU i Hi). reflexivity.
Qed.

(* two states with the same configuration (design matrix incl. the K row, jittered inverse variances, prior means and variances,
   velocities) give the same value, whatever the scratch buffers and locals hold from earlier calls *)
Theorem worker_history_independent (s0 s0' : st) (Y U : arr2 F) :
  oracles_local ->
  v_M_T s0 = v_M_T s0' -> v_s_ivar s0 = v_s_ivar s0' -> v_mu s0 = v_mu s0' -> v_Lambda s0 = v_Lambda s0' -> v_rv s0 = v_rv s0' ->
  o_inv orc nl (Atmp_arg s0) = Some Y -> o_lu orc nt (Btmp_arg s0) = Some U ->
  snd (likelihood_worker fo orc NT NL 0%Z s0) = snd (likelihood_worker fo orc NT NL 0%Z s0').
Proof.
  intros [Hinv Hlu] HM Hw Hmu HLa Hy HY HU.
  assert (EA : agree2 nl nl (Atmp_arg s0) (Atmp_arg s0')).
  { intros i j Hi Hj. unfold Atmp_arg, in2.
    replace (i <? nl)%nat with true by (symmetry; apply Nat.ltb_lt; lia).
    replace (j <? nl)%nat with true by (symmetry; apply Nat.ltb_lt; lia). cbn [andb]. rewrite HM, Hw, HLa. reflexivity. }
  assert (EB : agree2 nt nt (Btmp_arg s0) (Btmp_arg s0')).
  { intros i j Hi Hj. unfold Btmp_arg, in2.
    replace (i <? nt)%nat with true by (symmetry; apply Nat.ltb_lt; lia).
    replace (j <? nt)%nat with true by (symmetry; apply Nat.ltb_lt; lia). cbn [andb]. rewrite HM, Hw, HLa. reflexivity. }
  pose proof (Hinv nl _ _ EA) as H1. rewrite HY in H1. destruct (o_inv orc nl (Atmp_arg s0')) as [Y'|] eqn:HY'; [|contradiction].
  pose proof (Hlu nt _ _ EB) as H2. rewrite HU in H2. destruct (o_lu orc nt (Btmp_arg s0')) as [U'|] eqn:HU'; [|contradiction].
  rewrite (worker_value_marginal s0 Y U HY HU), (worker_value_marginal s0' Y' U' HY' HU').
  rewrite <- HM, <- Hw, <- Hmu, <- Hy. apply pvalue_local; assumption.
Qed.
End Loops.
