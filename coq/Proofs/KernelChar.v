(* Facts about the kernel model GENERATED from fast_likelihood.pyx (Gen/KernelPyx.v), for every field-operations record,
   every number of epochs / linear parameters and every state.  These are re-proved against the current source on every
   run; an edit of the .pyx that changes what they say breaks them. *)
From Coq Require Import ZArith List Bool Arith Lia ZifyBool.
From TJ Require Import Base.Imp Base.Fops Gen.KernelPyx.
Import ListNotations. Open Scope Z_scope.

Section Char.
Context {F : Type} (fo : fops F).

(* ---- get_ivar: new_ivar[i] = ivar[i] / (1 + s*s*ivar[i]) for every epoch, other cells untouched ---- *)
Definition jittered (ivar : arr1 F) (jit : F) (i : nat) : F :=
  fdiv fo (ivar i) (fadd fo (fz fo 1) (fmul fo (fmul fo jit jit) (ivar i))).

Lemma get_ivar_char len ivar jit new_ivar :
  0 <= len ->
  forall i : nat, get_ivar fo len ivar jit new_ivar i = if (Z.of_nat i <? len) then jittered ivar jit i else new_ivar i.
Proof.
  intros Hlen. unfold get_ivar.
  assert (H : forall k i, for_range k (fun i0 (a : arr1 F) => upd1 a i0 (jittered ivar jit i0)) new_ivar i
                        = if (i <? k)%nat then jittered ivar jit i else new_ivar i).
  { induction k as [|k IH]; intros i; [reflexivity|]. cbn [for_range]. unfold upd1 at 1.
    destruct (Nat.eqb i k) eqn:E.
    - apply Nat.eqb_eq in E. subst i. replace (k <? S k)%nat with true by (symmetry; apply Nat.ltb_lt; lia). reflexivity.
    - apply Nat.eqb_neq in E. rewrite IH.
      destruct (Nat.ltb_spec i k) as [H1|H1]; destruct (Nat.ltb_spec i (S k)) as [H2|H2]; try reflexivity; lia. }
  intros i. change (fun (i0 : nat) (new_ivar0 : arr1 F) => upd1 new_ivar0 i0 (fdiv fo (ivar i0) (fadd fo (fz fo 1) (fmul fo (fmul fo jit jit) (ivar i0)))))
    with (fun i0 (a : arr1 F) => upd1 a i0 (jittered ivar jit i0)).
  rewrite H. destruct (Nat.ltb_spec i (Z.to_nat len)) as [H1|H1]; destruct (Z.ltb_spec (Z.of_nat i) len) as [H2|H2]; try reflexivity; lia.
Qed.
End Char.

(* ---- __init__: where prior means and variances are stored ----
   Design-matrix column order is (K, v0, offsets dv0_1.., v1, v2, ..): column 0 = K, 1 = v0, 2+i = i-th offset,
   1 + n_offsets + j = v_j for j >= 1.  Linear names are enumerated as K (i=0), v0 (i=1), v1 (i=2), ... *)
Definition column_of (n_offsets i : Z) (nm : lin_name) : Z :=
  match nm with NK => 0 | Nv O => 1 | Nv (S _) => i + n_offsets end.

(* every mean goes to its own design-matrix column; every variance too, except that the default K prior
   (fixedK = 0) has no constant variance (it is computed per sample) *)
Lemma slot_mean fixedK noff i nm :
  (nm = NK -> i = 0) -> (nm = Nv O -> i = 1) ->
  fst (fst (linear_slot fixedK noff i nm)) = Some (column_of noff i nm).
Proof.
  intros HK H0. unfold linear_slot, column_of.
  destruct nm as [|[|j]]; cbn.
  - rewrite (HK eq_refl). destruct (fixedK =? 0); reflexivity.
  - rewrite (H0 eq_refl). reflexivity.
  - reflexivity.
Qed.

Lemma slot_var fixedK noff i nm :
  (nm = NK -> i = 0) -> (nm = Nv O -> i = 1) ->
  snd (fst (linear_slot fixedK noff i nm)) = if is_K nm && (fixedK =? 0) then None else Some (column_of noff i nm).
Proof.
  intros HK H0. unfold linear_slot, column_of.
  destruct nm as [|[|j]]; cbn.
  - rewrite (HK eq_refl). destruct (fixedK =? 0); reflexivity.
  - rewrite (H0 eq_refl). reflexivity.
  - reflexivity.
Qed.

Lemma slot_default_K_scalars fixedK noff i nm :
  snd (linear_slot fixedK noff i nm) = is_K nm && (fixedK =? 0).
Proof. unfold linear_slot. destruct nm as [|[|j]]; cbn; destruct (fixedK =? 0); reflexivity. Qed.

Lemma slot_offset noff i : offset_slot noff i = 2 + i.
Proof. reflexivity. Qed.

(* the slots of all linear parameters are pairwise distinct and lie in [0, n_linear): no prior overwrites another one *)
Lemma slots_injective noff (i j : nat) :
  0 <= noff ->
  let col (p : nat) := column_of noff (Z.of_nat p) (match p with O => NK | S q => Nv q end) in
  i <> j -> col i <> col j.
Proof.
  intros Hn col Hij. unfold col, column_of.
  destruct i as [|[|i]]; destruct j as [|[|j]]; try lia; try congruence.
Qed.
Lemma slots_vs_offsets noff (i : nat) (k : Z) :
  0 <= k < noff ->
  column_of noff (Z.of_nat i) (match i with O => NK | S q => Nv q end) <> offset_slot noff k.
Proof.
  intros Hk. unfold column_of, offset_slot. destruct i as [|[|i]]; lia.
Qed.

(* P0 is brought to the unit the kernel receives periods in *)
Lemma P0_in_days : p0_in_kernel_period_unit = true.
Proof. reflexivity. Qed.
Lemma posterior_layout : posterior_layout_as_modelled = true.
Proof. reflexivity. Qed.

(* ---- the three entry points prepare the SAME per-sample state (design matrix K column, jittered inverse variances,
   K prior variance with its cap) before calling the worker: marginal and posterior paths cannot drift apart ---- *)
Section SamePrelude.
Context {F : Type} (fo : fops F) (orc : oracles F).
Variables (nt nl fk : Z) (sK0 P0 mK t0 : F).

Definition worker_input_marginal (row : arr1 F) (s : kst) : kst * F :=
  k_marginal_one fo orc nt nl fk sK0 P0 mK t0 row s.

Lemma posterior_same_prelude :
  exists prelude : arr1 F -> kst -> kst,
    (forall row s, k_marginal_one fo orc nt nl fk sK0 P0 mK t0 row s = likelihood_worker fo orc nt nl 0 (prelude row s)) /\
    (forall row s, k_posterior_one fo orc nt nl fk sK0 P0 mK t0 row s = likelihood_worker fo orc nt nl 1 (prelude row s)) /\
    (forall row s, k_test_worker_one fo orc nt nl fk sK0 P0 mK t0 row s = likelihood_worker fo orc nt nl 1 (prelude row s)).
Proof.
  eexists. split; [|split]; intros row s.
  - unfold k_marginal_one, marginal_one. reflexivity.
  - unfold k_posterior_one, posterior_one. reflexivity.
  - unfold k_test_worker_one, test_worker_one. reflexivity.
Qed.
End SamePrelude.
