(* C09 -- properties of the declared densities (Model/Densities.v), over the reals. *)
From Coq Require Import Reals QArith Qreals Lra Psatz.
From Coquelicot Require Import Coquelicot.
From TJ Require Import Base.RealEnc Model.Densities.
Open Scope R_scope.

(* ---------- the executable encodings denote the real definitions ---------- *)
Lemma ul_norm_rx_val a b : rval (ul_norm_rx a b) = ul_norm (Q2R a) (Q2R b).
Proof. unfold ul_norm_rx, ul_norm. cbn [rval]. rewrite !rval_RQ. reflexivity. Qed.
Lemma ul_draw_rx_val a b u : rval (ul_draw_rx a b u) = ul_draw (Q2R a) (Q2R b) (Q2R u).
Proof. unfold ul_draw_rx, ul_draw. cbn [rval]. rewrite ul_norm_rx_val, !rval_RQ. reflexivity. Qed.
Lemma ul_logp_rx_val a b x : rval (ul_logp_rx a b x) = ul_logp_in (Q2R a) (Q2R b) (Q2R x).
Proof. unfold ul_logp_rx, ul_logp_in. cbn [rval]. rewrite ul_norm_rx_val, !rval_RQ. reflexivity. Qed.
Lemma ul_cdf_rx_val a b x : rval (ul_cdf_rx a b x) = ul_cdf (Q2R a) (Q2R b) (Q2R x).
Proof. unfold ul_cdf_rx, ul_cdf. cbn [rval]. rewrite ul_norm_rx_val, !rval_RQ. reflexivity. Qed.
Lemma rpow_rx_val x p : rval (rpow_rx x p) = Rpower (rval x) (Q2R p).
Proof. unfold rpow_rx, Rpower. cbn [rval]. rewrite rval_RQ. reflexivity. Qed.
Lemma Q2R_m13 : Q2R (- (1 # 3)) = - (1 / 3).
Proof. unfold Q2R. cbn. lra. Qed.
Lemma fcm_x_rx_val sK0 P0 P e : rval (fcm_x_rx sK0 P0 P e) = fcm_x (Q2R sK0) (Q2R P0) (Q2R P) (Q2R e).
Proof.
  unfold fcm_x_rx, fcm_x. cbn [rval]. rewrite rpow_rx_val. cbn [rval]. rewrite !rval_RQ, Q2R_m13.
  replace (IZR 1 / IZR 1) with 1 by lra. reflexivity.
Qed.
Lemma beta_logkernel_rx_val al be x : rval (beta_logkernel_rx al be x) = beta_logkernel (Q2R al) (Q2R be) (Q2R x).
Proof.
  unfold beta_logkernel_rx, beta_logkernel. cbn [rval]. rewrite !rval_RQ, !Q2R_minus.
  replace (Q2R 1) with 1 by (unfold Q2R; cbn; lra). replace (IZR 1 / IZR 1) with 1 by lra. reflexivity.
Qed.
Lemma normal_logp_rx_val mu sg x : rval (normal_logp_rx mu sg x) = normal_logp (rval mu) (rval sg) (rval x).
Proof.
  unfold normal_logp_rx, normal_logp. cbn [rval]. replace (IZR (-1) / IZR 2) with (- (1 / 2)) by lra.
  replace (IZR 1 / IZR 2) with (1 / 2) by lra. replace (IZR 2 / IZR 1) with 2 by lra. cbn [pow]. rewrite Rmult_1_r. reflexivity.
Qed.
Lemma xterm_rx_val t x : rval (xterm_rx t x) = xterm_logp t (Q2R x).
Proof.
  destruct t as [mu sg|mu sg]; unfold xterm_rx, xterm_logp; cbn [rval]; rewrite normal_logp_rx_val; cbn [rval]; rewrite !rval_RQ; reflexivity.
Qed.
(* the certified clip returns the declared sigma *)
Lemma fcm_sigma_rx_val sK0 P0 maxK P e sg :
  fcm_sigma_rx sK0 P0 maxK P e = Some sg -> rval sg = fcm_sigma (Q2R sK0) (Q2R P0) (Q2R maxK) (Q2R P) (Q2R e).
Proof.
  unfold fcm_sigma_rx, fcm_sigma. rewrite <- fcm_x_rx_val. set (x := fcm_x_rx sK0 P0 P e).
  destruct (rgt 60 x (RC 0 1)) eqn:E0; [|discriminate].
  apply rgt_correct in E0. cbn [rval] in E0. replace (IZR 0 / IZR 1) with 0 in E0 by lra.
  rewrite (Rmax_left (rval x) 0) by lra.
  destruct (rlt 60 x (RQ maxK)) eqn:E1.
  - intros H. injection H as <-. apply rlt_correct in E1. rewrite rval_RQ in E1. rewrite Rmin_left by lra. reflexivity.
  - destruct (rgt 60 x (RQ maxK)) eqn:E2; [|discriminate].
    intros H. injection H as <-. apply rgt_correct in E2. rewrite rval_RQ in *. rewrite Rmin_right by lra. reflexivity.
Qed.

(* ---------- log-uniform ---------- *)
Section LogUniform.
Variables a b : R.
Hypothesis Ha : 0 < a.
Hypothesis Hab : a < b.
Lemma ul_norm_pos : 0 < ul_norm a b.
Proof. unfold ul_norm. pose proof (ln_increasing a b Ha Hab). lra. Qed.

(* draws lie in the support *)
Theorem ul_draw_support u : 0 <= u < 1 -> a <= ul_draw a b u < b.
Proof.
  intros [Hu0 Hu1]. pose proof ul_norm_pos as Hn. unfold ul_draw.
  assert (Hlo : ln a <= u * ul_norm a b + ln a) by nra.
  assert (Hhi : u * ul_norm a b + ln a < ln b) by (unfold ul_norm in *; nra).
  split.
  - rewrite <- (exp_ln a Ha) at 1. destruct Hlo as [Hlt|Heq]; [left; apply exp_increasing; exact Hlt|right; rewrite <- Heq; reflexivity].
  - rewrite <- (exp_ln b) at 2 by lra. apply exp_increasing. exact Hhi.
Qed.

(* the transform is the inverse of the CDF: draws of a uniform u are distributed with CDF ul_cdf *)
Theorem ul_draw_inverse_cdf u : ul_cdf a b (ul_draw a b u) = u.
Proof. pose proof ul_norm_pos. unfold ul_cdf, ul_draw. rewrite ln_exp. field. lra. Qed.
Theorem ul_cdf_increasing x y : 0 < x -> x < y -> ul_cdf a b x < ul_cdf a b y.
Proof.
  intros Hx Hxy. pose proof ul_norm_pos as Hn. unfold ul_cdf.
  pose proof (ln_increasing x y Hx Hxy). apply Rmult_lt_compat_r; [apply Rinv_0_lt_compat; exact Hn|lra].
Qed.
Theorem ul_cdf_ends : ul_cdf a b a = 0 /\ ul_cdf a b b = 1.
Proof. pose proof ul_norm_pos. unfold ul_cdf. split; [field; lra|unfold ul_norm in *; field; lra]. Qed.

(* the density is the derivative of the CDF, and the log-density is its logarithm *)
Theorem ul_cdf_derive x : 0 < x -> is_derive (ul_cdf a b) x (ul_pdf a b x).
Proof.
  intros Hx. pose proof ul_norm_pos as Hn. unfold ul_cdf, ul_pdf.
  auto_derive; [exact Hx|]. field. split; lra.
Qed.
Theorem ul_logp_is_log_pdf x : 0 < x -> ul_logp_in a b x = ln (ul_pdf a b x).
Proof.
  intros Hx. pose proof ul_norm_pos as Hn. unfold ul_logp_in, ul_pdf.
  rewrite ln_Rinv by (apply Rmult_lt_0_compat; assumption). rewrite ln_mult by assumption. ring.
Qed.
Theorem ul_pdf_pos x : 0 < x -> 0 < ul_pdf a b x.
Proof. intros Hx. unfold ul_pdf. apply Rinv_0_lt_compat, Rmult_lt_0_compat; [exact Hx|exact ul_norm_pos]. Qed.

(* normalisation: the density integrates to 1 over [a, b] *)
Theorem ul_normalised : is_RInt (ul_pdf a b) a b 1.
Proof.
  destruct ul_cdf_ends as [E0 E1].
  replace 1 with (minus (ul_cdf a b b) (ul_cdf a b a)) by (rewrite E0, E1; unfold minus, plus, opp; simpl; ring).
  apply (is_RInt_derive (ul_cdf a b) (ul_pdf a b)).
  - intros x Hx. rewrite Rmin_left, Rmax_right in Hx by lra. apply ul_cdf_derive. lra.
  - intros x Hx. rewrite Rmin_left, Rmax_right in Hx by lra.
    apply (ex_derive_continuous (ul_pdf a b) x). unfold ul_pdf. auto_derive.
    pose proof ul_norm_pos. assert (0 < x * ul_norm a b) by (apply Rmult_lt_0_compat; lra). lra.
Qed.
End LogUniform.

(* ---------- the K prior the draws come from is the one the kernel marginalises against ---------- *)
Theorem fcm_variance_rule sK0 P0 maxK P e :
  0 < sK0 -> 0 < P0 -> 0 < P -> 0 <= maxK -> e * e < 1 ->
  fcm_sigma sK0 P0 maxK P e * fcm_sigma sK0 P0 maxK P e = kernel_K_var sK0 P0 maxK P e.
Proof.
  intros Hs HP0 HP Hm He. unfold fcm_sigma, kernel_K_var.
  assert (Hr : 0 < P / P0) by (apply Rdiv_lt_0_compat; assumption).
  assert (Hq : 0 < sqrt (1 - e * e)) by (apply sqrt_lt_R0; lra).
  assert (Hpw : 0 < Rpower (P / P0) (- (1 / 3))) by (unfold Rpower; apply exp_pos).
  assert (Hx : 0 < fcm_x sK0 P0 P e).
  { unfold fcm_x. apply Rdiv_lt_0_compat; [apply Rmult_lt_0_compat; assumption|exact Hq]. }
  assert (Hxx : fcm_x sK0 P0 P e * fcm_x sK0 P0 P e = sK0 * sK0 * Rpower (P / P0) (- (2 / 3)) / (1 - e * e)).
  { unfold fcm_x. replace (- (2 / 3)) with (- (1 / 3) + - (1 / 3)) by lra. rewrite Rpower_plus.
    rewrite <- (sqrt_sqrt (1 - e * e)) at 3 by lra. field. lra. }
  rewrite (Rmax_left _ 0) by lra. rewrite <- Hxx.
  set (x := fcm_x sK0 P0 P e) in *.
  destruct (Rle_dec x maxK) as [Hle|Hgt].
  - rewrite Rmin_left by exact Hle. rewrite Rmin_left by nra. reflexivity.
  - apply Rnot_le_lt in Hgt. rewrite Rmin_right by lra. rewrite Rmin_right by nra. reflexivity.
Qed.
