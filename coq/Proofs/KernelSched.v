(* C05 over schedules, for the GENERATED kernel: any pool of workers whose helper copies agree on the configuration (design
   matrix outside the K row, inverse variances, prior means / variances, velocities) -- whatever their scratch buffers, locals
   and per-sample slots hold from earlier calls -- returns, for EVERY complete schedule, the values a fresh helper computes. *)
From Coq Require Import ZArith List Bool Arith Lia FunctionalExtensionality.
From TJ Require Import Base.Imp Base.Fops Gen.KernelPyx Proofs.KernelChar Proofs.KernelLoops Proofs.KernelPrelude Model.Sched Proofs.SchedProofs Gen.BatchTasksGen Model.BatchSpec Model.Paths Proofs.PathProofs.
Import ListNotations.

Section KS.
Context {F : Type}.
Variables (fo : fops F) (orc : oracles F) (nt nl : nat) (fk : Z) (sK0 P0 mK t0 : F).
Notation st := (kst (F := F)).
Notation NT := (Z.of_nat nt).
Notation NL := (Z.of_nat nl).

(* what a helper copy is configured with; the cells a per-sample prelude overwrites are excluded *)
Definition cfg_eq (s s' : st) : Prop :=
  (forall i n, Nat.eqb i 0 && Nat.ltb n nt = false -> v_M_T s i n = v_M_T s' i n) /\
  v_ivar s = v_ivar s' /\
  (forall n, (Z.of_nat n <? NT)%Z = false -> v_s_ivar s n = v_s_ivar s' n) /\
  v_mu s = v_mu s' /\
  (forall i, (fk =? 0)%Z && Nat.eqb i 0 = false -> v_Lambda s i = v_Lambda s' i) /\
  v_rv s = v_rv s'.

Lemma cfg_eq_refl s : cfg_eq s s.
Proof. repeat split; intros; reflexivity. Qed.
Lemma cfg_eq_trans a b c : cfg_eq a b -> cfg_eq b c -> cfg_eq a c.
Proof.
  intros (H1 & H2 & H3 & H4 & H5 & H6) (G1 & G2 & G3 & G4 & G5 & G6).
  repeat split; intros; try congruence.
  - rewrite H1, G1 by assumption. reflexivity.
  - rewrite H3, G3 by assumption. reflexivity.
  - rewrite H5, G5 by assumption. reflexivity.
Qed.

Definition step_marginal (s : st) (row : arr1 F) : st * F := k_marginal_one fo orc NT NL fk sK0 P0 mK t0 row s.
Definition pre (row : arr1 F) (s : st) : st := prelude_state fo orc nt fk sK0 P0 mK t0 row s.

(* the oracles succeed on every per-sample system (assumed of LAPACK throughout; C01) *)
Hypothesis Hok : forall row s, exists Y U, o_inv orc nl (Atmp_arg fo nt nl (pre row s)) = Some Y /\ o_lu orc nt (Btmp_arg fo nt nl (pre row s)) = Some U.
Hypothesis Hloc : oracles_local orc.

(* after the prelude two configuration-equal states hold the same arrays wherever the worker reads *)
Lemma pre_cfg row s s' : cfg_eq s s' ->
  v_M_T (pre row s) = v_M_T (pre row s') /\ v_s_ivar (pre row s) = v_s_ivar (pre row s') /\ v_mu (pre row s) = v_mu (pre row s') /\
  v_Lambda (pre row s) = v_Lambda (pre row s') /\ v_rv (pre row s) = v_rv (pre row s').
Proof.
  intros (H1 & H2 & H3 & H4 & H5 & H6). unfold pre. repeat split.
  - extensionality i. extensionality n. rewrite !prelude_M_T. destruct (Nat.eqb i 0 && Nat.ltb n nt) eqn:E; [reflexivity|apply H1, E].
  - extensionality n. rewrite !prelude_s_ivar. destruct (Z.of_nat n <? NT)%Z eqn:E; [rewrite H2; reflexivity|apply H3, E].
  - rewrite !prelude_mu. exact H4.
  - extensionality i. rewrite !prelude_Lambda. destruct ((fk =? 0)%Z && Nat.eqb i 0) eqn:E; [reflexivity|apply H5, E].
  - rewrite !prelude_rv. exact H6.
Qed.

Lemma step_result_cfg s s' row : cfg_eq s s' -> snd (step_marginal s row) = snd (step_marginal s' row).
Proof.
  intros H. unfold step_marginal. rewrite !marginal_one_prelude.
  destruct (Hok row s) as (Y & U & HY & HU).
  destruct (pre_cfg row s s' H) as (E1 & E2 & E3 & E4 & E5).
  exact (worker_history_independent fo orc nt nl (pre row s) (pre row s') Y U Hloc E1 E2 E3 E4 E5 HY HU).
Qed.

(* the worker only writes scratch buffers and locals: the configuration survives the call *)
Lemma sB_ok_frame (s0 : st) (Y U : arr2 F) c :
  let s := set_l_chi2 c (sB_ok fo nt nl s0 Y U) in
  v_M_T s = v_M_T s0 /\ v_ivar s = v_ivar s0 /\ v_s_ivar s = v_s_ivar s0 /\ v_mu s = v_mu s0 /\ v_Lambda s = v_Lambda s0 /\ v_rv s = v_rv s0.
Proof.
  cbv zeta. unfold sB_ok, bB_closed, BB3_closed, BB2_closed, BB1_closed, sA_ok, AA_closed. autorewrite with kst. repeat split; reflexivity.
Qed.

Lemma step_preserves_cfg s row : cfg_eq s (fst (step_marginal s row)).
Proof.
  unfold step_marginal. rewrite marginal_one_prelude. fold (pre row s).
  destruct (Hok row s) as (Y & U & HY & HU).
  rewrite (worker_after_factorisations fo orc nt nl (pre row s) 0%Z Y U HY HU). cbv zeta. cbn [Z.eqb fst].
  destruct (sB_ok_frame (pre row s) Y U (chi2_val fo nt (sB_ok fo nt nl (pre row s) Y U))) as (E1 & E2 & E3 & E4 & E5 & E6).
  cbv zeta in E1, E2, E3, E4, E5, E6. unfold cfg_eq. rewrite E1, E2, E3, E4, E5, E6. unfold pre.
  repeat split.
  - intros i n H. rewrite prelude_M_T, H. reflexivity.
  - unfold prelude_state. cbv zeta. destruct (fk =? 0)%Z; autorewrite with kst; reflexivity.
  - intros n H. rewrite prelude_s_ivar, H. reflexivity.
  - rewrite prelude_mu. reflexivity.
  - intros i H. rewrite prelude_Lambda, H. reflexivity.
  - rewrite prelude_rv. reflexivity.
Qed.

(* C05, all schedules: a pool of workers with configuration-equal helper copies (arbitrary scratch contents / histories),
   tasks = prior-sample rows, ANY assignment of rows to workers and ANY completion order: slot i holds the value a fresh
   helper w0 computes for row i *)
Theorem marginal_pool_schedule_independent (w0 : st) (rows : list (arr1 F)) (ws : list st) (sch : list (nat * nat)) :
  Forall (cfg_eq w0) ws -> complete (length rows) (length ws) sch ->
  pool_map st (arr1 F) F step_marginal rows ws sch = map (fun row => Some (snd (step_marginal w0 row))) rows.
Proof.
  intros HE Hc.
  exact (pool_map_schedule_independent_rel st (arr1 F) F step_marginal cfg_eq cfg_eq_trans
           (fun a b t H => step_result_cfg a b t H) step_preserves_cfg w0 rows ws sch HE Hc).
Qed.

(* ---- tasks are BATCHES of rows: a worker evaluates the rows of its batch one after the other on the same helper copy ---- *)
Fixpoint step_batch (s : st) (rows : list (arr1 F)) : st * list F :=
  match rows with
  | [] => (s, [])
  | r :: rs => let '(s1, v) := step_marginal s r in let '(s2, vs) := step_batch s1 rs in (s2, v :: vs)
  end.
Definition value (w0 : st) (row : arr1 F) : F := snd (step_marginal w0 row).

Lemma step_batch_spec w0 rows : forall s, cfg_eq w0 s ->
  cfg_eq w0 (fst (step_batch s rows)) /\ snd (step_batch s rows) = map (value w0) rows.
Proof.
  induction rows as [|r rs IH]; intros s Hs; [split; [exact Hs|reflexivity]|].
  cbn [step_batch]. destruct (step_marginal s r) as [s1 v] eqn:E1.
  assert (H1 : cfg_eq w0 s1).
  { apply (cfg_eq_trans _ s); [exact Hs|]. pose proof (step_preserves_cfg s r) as H. rewrite E1 in H. exact H. }
  destruct (IH s1 H1) as [H2 H3]. destruct (step_batch s1 rs) as [s2 vs]. cbn [fst snd] in *.
  split; [exact H2|]. cbn [map]. f_equal; [|exact H3].
  unfold value. rewrite (step_result_cfg w0 s r Hs), E1. reflexivity.
Qed.

Theorem marginal_batches_schedule_independent (w0 : st) (batches : list (list (arr1 F))) (ws : list st) (sch : list (nat * nat)) :
  Forall (cfg_eq w0) ws -> complete (length batches) (length ws) sch ->
  pool_map st (list (arr1 F)) (list F) step_batch batches ws sch = map (fun b => Some (map (value w0) b)) batches.
Proof.
  intros HE Hc.
  rewrite (pool_map_schedule_independent_rel st (list (arr1 F)) (list F) step_batch cfg_eq cfg_eq_trans) with (w0 := w0); try assumption.
  - apply map_ext. intros b. f_equal. exact (proj2 (step_batch_spec w0 b w0 (cfg_eq_refl w0))).
  - intros a b t H.
    destruct (step_batch_spec a t a (cfg_eq_refl a)) as [_ Ha]. destruct (step_batch_spec a t b H) as [_ Hb]. congruence.
  - intros a t. exact (proj1 (step_batch_spec a t a (cfg_eq_refl a))).
Qed.

(* ---- ... and the batches are the ones batch_tasks (generated from utils.py) cuts the library into ---- *)
Theorem file_path_every_schedule (w0 : st) (rows : list (arr1 F)) (n_batches : Z) (ws : list st) (sch : list (nat * nat)) :
  let batches := map (task_rows rows) (batch_tasks_gen (Z.of_nat (length rows)) n_batches 0 true) in
  rows <> [] -> (1 <= n_batches)%Z -> Forall (cfg_eq w0) ws -> complete (length batches) (length ws) sch ->
  pool_map st (list (arr1 F)) (list F) step_batch batches ws sch = map (fun b => Some (map (value w0) b)) batches /\
  concat (map (map (value w0)) batches) = map (value w0) rows.
Proof.
  intros batches Hne Hnb HE Hc. split; [exact (marginal_batches_schedule_independent w0 batches ws sch HE Hc)|].
  unfold batches. rewrite map_map. exact (batching_invariant (value w0) rows n_batches Hne Hnb).
Qed.
(* the same for rows selected by an explicit index array (the accepted samples, or a shuffled evaluation order): batches of the
   supplied rows in the supplied order *)
Theorem idx_path_every_schedule (w0 : st) (idx_rows : list (arr1 F)) (n_batches : Z) (ws : list st) (sch : list (nat * nat)) :
  let batches := map (task_rows idx_rows) (batch_tasks_gen (Z.of_nat (length idx_rows)) n_batches 0 false) in
  idx_rows <> [] -> (1 <= n_batches)%Z -> Forall (cfg_eq w0) ws -> complete (length batches) (length ws) sch ->
  pool_map st (list (arr1 F)) (list F) step_batch batches ws sch = map (fun b => Some (map (value w0) b)) batches /\
  concat (map (map (value w0)) batches) = map (value w0) idx_rows.
Proof.
  intros batches Hne Hnb HE Hc. split; [exact (marginal_batches_schedule_independent w0 batches ws sch HE Hc)|].
  unfold batches. rewrite map_map. exact (batching_invariant_idx (value w0) idx_rows n_batches Hne Hnb).
Qed.
End KS.
