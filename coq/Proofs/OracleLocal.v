(* The executable LAPACK oracles (Base/SymReal.v: exact Gauss-Jordan on the n x n block) satisfy the locality contract that
   C05_history_independent assumes of the oracles: they read only the block they are given. *)
From Coq Require Import Reals QArith ZArith List Bool Arith Lia.
From TJ Require Import Base.Imp Base.RealEnc Base.Fops Base.QMat Base.SymReal Gen.KernelPyx Proofs.KernelLoops.
Import ListNotations.

Lemma tab2_agree (n : nat) (a a' : arr2 sr) : agree2 n n a a' -> tab2 n n a = tab2 n n a'.
Proof.
  intros H. unfold tab2. apply map_ext_in. intros i Hi. apply in_seq in Hi. apply map_ext_in. intros j Hj. apply in_seq in Hj.
  apply H; lia.
Qed.
Lemma sr_mat_q_agree n a a' : agree2 n n a a' -> sr_mat_q n n a = sr_mat_q n n a'.
Proof. intros H. unfold sr_mat_q. rewrite (tab2_agree n a a' H). reflexivity. Qed.

Theorem sr_oracles_local (tbl : kepler_table) : oracles_local (sr_oracles tbl).
Proof.
  split; intros n a a' H; cbn [o_inv o_lu sr_oracles].
  - unfold sr_o_inv. rewrite (sr_mat_q_agree n a a' H).
    destruct (sr_mat_q n n a') as [qa|]; [|exact I]. destruct (qinv n qa) as [x|]; [|exact I].
    destruct (is_inverse n qa x); [|exact I]. intros i j _ _. reflexivity.
  - unfold sr_o_lu. rewrite (sr_mat_q_agree n a a' H).
    destruct (sr_mat_q n n a') as [qa|]; [|exact I]. destruct (qpivots n qa) as [ps|]; [|exact I]. intros i _. reflexivity.
Qed.
