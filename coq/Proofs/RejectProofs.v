(* C02 -- proofs about the rejection-step model. *)
From Coq Require Import Reals QArith Qreals ZArith List Bool Arith Lia Lra Sorted.
From TJ Require Import Base.XQ Base.Corr Base.RealEnc Model.Reject.
Import ListNotations.

(* the rule itself, over the reals:  exp(ll - m) > u  in IEEE semantics of the special values *)
Definition rule (m ll : XQ) (u : Q) : Prop :=
  match xq_sub ll m with
  | XFin d => (Q2R u < exp (Q2R d))%R
  | XPInf => True
  | XNInf | XNaN => False
  end.

(* what it means for a decision oracle to be right (on uniform draws, which are >= 0) *)
Definition dec_sound (dec : Q -> Q -> option bool) : Prop :=
  forall d u b, 0 <= u -> dec d u = Some b -> (b = true <-> (Q2R u < exp (Q2R d))%R).

(* ---- the interval-arithmetic oracle is sound ---- *)
Lemma Q2R_0' : Q2R 0 = 0%R.
Proof. unfold Q2R. cbn. lra. Qed.
Lemma Q2R_1' : Q2R 1 = 1%R.
Proof. unfold Q2R. cbn. lra. Qed.

Lemma dec_exp_sound prec : dec_sound (dec_exp prec).
Proof.
  intros d u b Hu. unfold dec_exp.
  assert (HuR : (0 <= Q2R u)%R) by (rewrite <- Q2R_0'; apply Qle_Rle, Hu).
  destruct (Qeq_bool d 0) eqn:Ed.
  - apply Qeq_bool_iff in Ed. apply Qeq_eqR in Ed. rewrite Ed, Q2R_0', exp_0.
    intros H. injection H as <-. rewrite negb_true_iff. split.
    + intros Hle. destruct (Qlt_le_dec u 1) as [Hlt|Hge].
      * rewrite <- Q2R_1'. apply Qlt_Rlt, Hlt.
      * apply Qle_bool_iff in Hge. congruence.
    + intros Hlt. destruct (Qle_bool 1 u) eqn:E; [|reflexivity].
      apply Qle_bool_iff in E. apply Qle_Rle in E. rewrite Q2R_1' in E. lra.
  - destruct (rgt prec (RExp (RQ d)) (RQ (u * (1 + margin)))) eqn:E1.
    + apply rgt_correct in E1. cbn [rval] in E1. rewrite !rval_RQ in E1.
      rewrite Q2R_mult, Q2R_plus, Q2R_1' in E1.
      assert (0 < Q2R margin)%R by (unfold margin, Q2R; cbn; lra).
      intros H'. injection H' as <-. split; [intros _|reflexivity]. nra.
    + destruct (rlt prec (RExp (RQ d)) (RQ (u * (1 - margin)))) eqn:E2; [|discriminate].
      apply rlt_correct in E2. cbn [rval] in E2. rewrite !rval_RQ in E2.
      rewrite Q2R_mult, Q2R_minus, Q2R_1' in E2.
      assert (0 < Q2R margin)%R by (unfold margin, Q2R; cbn; lra).
      intros H'. injection H' as <-. split; [discriminate|]. intros Hlt. exfalso. nra.
Qed.

Section Rule.
  Variable dec : Q -> Q -> option bool.
  Hypothesis Hdec : dec_sound dec.

  Lemma accept1_rule m ll u b : 0 <= u -> accept1 dec m ll u = Some b -> (b = true <-> rule m ll u).
  Proof.
    intros Hu. unfold accept1, rule. destruct (xq_sub ll m).
    - apply Hdec, Hu.
    - intros H. injection H as <-. split; [discriminate|tauto].
    - intros H. injection H as <-. tauto.
    - intros H. injection H as <-. split; [discriminate|tauto].
  Qed.

  (* membership <=> the rule; positions strictly increasing (evaluation order, no repeats) *)
  Lemma accept_from_spec m : forall lls us k r,
    Forall (fun u => 0 <= u) us ->
    accept_from dec k m lls us = Some r ->
    length lls = length us /\
    (forall i, In i r <-> exists j, (j < length lls)%nat /\ i = (k + j)%nat /\ rule m (nth j lls XNaN) (nth j us 0)) /\
    StronglySorted lt r /\ Forall (fun i => (k <= i < k + length lls)%nat) r.
  Proof.
    induction lls as [|ll lls IH]; intros us k r Hus H; destruct us as [|u us]; cbn [accept_from] in H; try discriminate.
    - injection H as <-. repeat split; try constructor.
      + intros [].
      + intros (j & Hj & _). cbn in Hj. lia.
    - inversion Hus as [|? ? Hu Hus']; subst.
      destruct (accept1 dec m ll u) as [b|] eqn:E1; [|discriminate].
      destruct (accept_from dec (S k) m lls us) as [r'|] eqn:E2; [|destruct b; discriminate].
      destruct (IH us (S k) r' Hus' E2) as (Hlen & Hin & Hsort & Hrange).
      pose proof (accept1_rule m ll u b Hu E1) as Hb.
      assert (Hr : r = if b then k :: r' else r') by (destruct b; congruence).
      split; [cbn; lia|]. split; [|split].
      + intros i. subst r. split.
        * intros Hi. assert (Hcase : (i = k /\ b = true) \/ In i r') by (destruct b; cbn in Hi; intuition).
          destruct Hcase as [[-> Hbt]|Hi'].
          -- exists O. cbn. repeat split; [lia|lia|apply Hb, Hbt].
          -- apply Hin in Hi'. destruct Hi' as (j & Hj & -> & Hrule). exists (S j). cbn. repeat split; [lia|lia|exact Hrule].
        * intros (j & Hj & -> & Hrule). destruct j as [|j].
          -- cbn in Hrule. apply Hb in Hrule. subst b. left. lia.
          -- assert (In (S k + j)%nat r') by (apply Hin; exists j; cbn in Hj; repeat split; [lia|exact Hrule]).
             replace (k + S j)%nat with (S k + j)%nat by lia. destruct b; [right|]; assumption.
      + subst r. destruct b; [|exact Hsort]. constructor; [exact Hsort|].
        rewrite Forall_forall in *. intros x Hx. specialize (Hrange x Hx). lia.
      + subst r. rewrite Forall_forall in *. cbn [length].
        destruct b; intros x Hx; [destruct Hx as [<-|Hx]; [lia|]|]; specialize (Hrange x Hx); lia.
  Qed.

  Theorem accept_idx_spec lls us r :
    Forall (fun u => 0 <= u) us -> accept_idx dec lls us = Some r ->
    length lls = length us /\
    (forall i, In i r <-> (i < length lls)%nat /\ rule (xmaxl lls) (nth i lls XNaN) (nth i us 0)) /\
    StronglySorted lt r.
  Proof.
    intros Hus H. unfold accept_idx in H. destruct (accept_from_spec _ _ _ _ _ Hus H) as (Hl & Hin & Hs & _).
    repeat split; try assumption.
    - apply Hin in H0. destruct H0 as (j & Hj & -> & _). exact Hj.
    - apply Hin in H0. destruct H0 as (j & Hj & -> & Hr). exact Hr.
    - intros [Hi Hr]. apply Hin. exists i. auto.
  Qed.

  (* the best sample always survives: a sample whose ll equals the (finite) maximum is accepted for every draw u < 1 *)
  Theorem best_survives lls us r j a b :
    Forall (fun u => 0 <= u) us -> accept_idx dec lls us = Some r ->
    (j < length lls)%nat -> nth j lls XNaN = XFin a -> xmaxl lls = XFin b -> a == b -> nth j us 0 < 1 ->
    In j r.
  Proof.
    intros Hus H Hj Ha Hb Hab Hu. destruct (accept_idx_spec _ _ _ Hus H) as (_ & Hin & _).
    apply Hin. split; [exact Hj|].
    unfold rule. rewrite Ha, Hb. cbn [xq_sub].
    assert (E : Q2R (a - b) = 0%R).
    { rewrite <- Q2R_0'. apply Qeq_eqR. rewrite Hab. ring. }
    rewrite E, exp_0, <- Q2R_1'. apply Qlt_Rlt, Hu.
  Qed.

  (* a -inf (or NaN) likelihood next to a finite maximum is never accepted *)
  Theorem ninf_never lls us r j b :
    Forall (fun u => 0 <= u) us -> accept_idx dec lls us = Some r ->
    xmaxl lls = XFin b -> (nth j lls XNaN = XNInf \/ nth j lls XNaN = XNaN) -> ~ In j r.
  Proof.
    intros Hus H Hb Hj Hin. destruct (accept_idx_spec _ _ _ Hus H) as (_ & Hspec & _).
    apply Hspec in Hin. destruct Hin as [_ Hr].
    unfold rule in Hr. rewrite Hb in Hr. destruct Hj as [Hj|Hj]; rewrite Hj in Hr; exact Hr.
  Qed.
End Rule.

(* ---- truncation and row bookkeeping (no reals involved) ---- *)
Lemma in_firstn {A} n (l : list A) x : In x (firstn n l) -> In x l.
Proof.
  revert n. induction l as [|a l IH]; intros n; destruct n; cbn; try tauto.
  intros [->|H]; [left; reflexivity|right; eapply IH; eassumption].
Qed.

Lemma sorted_firstn n l : StronglySorted lt l -> StronglySorted lt (firstn n l).
Proof.
  revert n. induction l as [|a l IH]; intros n Hs; destruct n; cbn; try constructor.
  - inversion Hs; subst. apply IH. assumption.
  - inversion Hs as [|? ? _ Hall]; subst. rewrite Forall_forall in *. intros x Hx.
    apply Hall. eapply in_firstn. exact Hx.
Qed.

(* max_posterior_samples keeps the FIRST accepted positions: a prefix *)
Lemma firstn_prefix {A} n (l : list A) : exists tl, l = firstn n l ++ tl.
Proof. exists (skipn n l). symmetry. apply firstn_skipn. Qed.

Lemma in_repeat_each {A} n (l : list A) x : In x (repeat_each n l) -> In x l.
Proof.
  unfold repeat_each. rewrite in_flat_map. intros (y & Hy & Hx). apply repeat_spec in Hx. subst. exact Hy.
Qed.
Lemma repeat_each_cons {A} n (a : A) l : repeat_each n (a :: l) = repeat a n ++ repeat_each n l.
Proof. reflexivity. Qed.
Lemma repeat_each_length {A} n (l : list A) : length (repeat_each n l) = (n * length l)%nat.
Proof.
  induction l as [|a l IH]; cbn; [lia|]. rewrite app_length, repeat_length.
  change (flat_map (fun x => repeat x n) l) with (repeat_each n l). rewrite IH. lia.
Qed.

(* every library row that is returned was evaluated *)
Lemma full_idx_evaluated order good n_prior :
  Forall (fun g => (g < n_prior)%nat) good ->
  match order with Some o => length o = n_prior | None => True end ->
  forall f, In f (full_idx order good) -> In f (eval_rows n_prior order).
Proof.
  intros Hg Ho f. unfold full_idx, eval_rows. destruct order as [o|].
  - rewrite in_map_iff. intros (g & <- & Hin). rewrite Forall_forall in Hg. apply nth_In. rewrite Ho. apply Hg, Hin.
  - intros Hin. rewrite Forall_forall in Hg. apply in_seq. specialize (Hg f Hin). lia.
Qed.
