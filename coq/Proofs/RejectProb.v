(* C02 -- the survival PROBABILITY: for a uniform draw u on [0, 1) the rule exp(ll_i - max ll) > u holds on a set of
   Lebesgue measure exp(ll_i - max ll) = L_i / L_max (Coquelicot's Riemann integral of the indicator). *)
From Coq Require Import Reals Lra.
From Coquelicot Require Import Coquelicot.
Open Scope R_scope.

Definition keep_ind (p u : R) : R := if Rlt_dec u p then 1 else 0.

Theorem keep_measure (p : R) : 0 <= p <= 1 -> is_RInt (keep_ind p) 0 1 p.
Proof.
  intros [H0 H1].
  replace p with (plus (scal (p - 0) 1) (scal (1 - p) 0)) at 2
    by (unfold plus, scal; simpl; unfold mult; simpl; ring).
  apply (is_RInt_Chasles (keep_ind p) 0 p 1).
  - apply (is_RInt_ext (fun _ => 1)); [|apply (is_RInt_const 0 p 1)].
    intros x [_ Hx]. rewrite Rmax_right in Hx by exact H0. unfold keep_ind. destruct (Rlt_dec x p); [reflexivity|contradiction].
  - apply (is_RInt_ext (fun _ => 0)); [|apply (is_RInt_const p 1 0)].
    intros x [Hx _]. rewrite Rmin_left in Hx by exact H1. unfold keep_ind. destruct (Rlt_dec x p); [lra|reflexivity].
Qed.

(* the acceptance level is the likelihood ratio *)
Lemma level_is_ratio (ll m : R) : exp (ll - m) = exp ll / exp m.
Proof. unfold Rminus, Rdiv. rewrite exp_plus, exp_Ropp. reflexivity. Qed.
Lemma level_range (ll m : R) : ll <= m -> 0 <= exp (ll - m) <= 1.
Proof.
  intros H. split; [left; apply exp_pos|]. rewrite <- exp_0.
  destruct H as [H|H]; [left; apply exp_increasing; lra|right; f_equal; lra].
Qed.

(* P(sample i is kept) = L_i / L_max for a uniform draw on [0, 1) *)
Theorem survival_probability (ll m : R) :
  ll <= m -> is_RInt (fun u => if Rlt_dec u (exp (ll - m)) then 1 else 0) 0 1 (exp ll / exp m).
Proof. intros H. rewrite <- level_is_ratio. apply (keep_measure (exp (ll - m))), level_range, H. Qed.

(* the indicator integrated above is the model's rule *)
From Coq Require Import QArith Qreals.
From TJ Require Import Base.XQ Model.Reject Proofs.RejectProofs.
Open Scope R_scope.
Lemma rule_is_indicator (m ll u : Q) :
  rule (XFin m) (XFin ll) u <-> keep_ind (exp (Q2R (ll - m))) (Q2R u) = 1%R.
Proof.
  unfold rule, keep_ind. cbn [xq_sub]. destruct (Rlt_dec (Q2R u) (exp (Q2R (ll - m)))) as [H|H]; split; intros H'; auto; try lra; try contradiction.
Qed.
