(* C16 -- proofs about the *generated* translation of utils.batch_tasks. *)
From Coq Require Import ZArith List Bool Lia ZifyBool.
From TJ Require Import Base.Imp Gen.BatchTasksGen Model.BatchSpec.
Import ListNotations. Open Scope Z_scope.
Ltac Zify.zify_post_hook ::= Z.to_euclidean_division_equations.

Lemma chain_snoc lo mid hi ts t :
  chain lo mid ts -> t_lo t = mid -> t_hi t = hi -> mid < hi -> t_id t = mid ->
  chain lo hi (ts ++ [t]).
Proof.
  revert lo. induction ts as [|a r IH]; intros lo Hc Hl Hh Hlt Hid; cbn [chain app] in *.
  - subst. repeat split; lia.
  - destruct Hc as (H1 & H2 & H3 & H4). repeat split; try assumption. apply IH; assumption.
Qed.

Lemma chainb_spec lo hi ts : chainb lo hi ts = true <-> chain lo hi ts.
Proof.
  revert lo. induction ts as [|a r IH]; intros lo; cbn [chain chainb].
  - apply Z.eqb_eq.
  - rewrite !andb_true_iff, IH, !Z.eqb_eq, Z.ltb_lt. tauto.
Qed.

Definition size_ok (base : Z) (t : task) : Prop := t_hi t - t_lo t = base \/ t_hi t - t_lo t = base + 1.
Definition kind_ok (b : bool) (t : task) : Prop := t_is_idx t = b.

(* state of the loop after k iterations *)
Definition loop_inv (n_tasks n_batches start : Z) (b : bool) (k : Z) (s : bt_state) : Prop :=
  v_base_batch_size s = n_tasks / n_batches /\
  v_rmdr s = n_tasks mod n_batches /\
  v_i1 s = start + k * (n_tasks / n_batches) + Z.min k (n_tasks mod n_batches) /\
  chain start (v_i1 s) (v_tasks s) /\
  Z.of_nat (length (v_tasks s)) = k /\
  Forall (size_ok (n_tasks / n_batches)) (v_tasks s) /\
  Forall (kind_ok b) (v_tasks s).

Section Gen.
  Variables n_tasks n_batches start : Z.
  Variable b : bool.
  Hypothesis Hb : 1 <= n_batches.
  Hypothesis Hs : 0 <= start.

  Lemma base_pos : n_batches <= n_tasks -> 1 <= n_tasks / n_batches.
  Proof. intros H. apply Z.div_le_lower_bound; lia. Qed.

  Lemma body_many :
    n_batches <= n_tasks ->
    loop_inv n_tasks n_batches start b n_batches
      (batch_tasks_body n_tasks n_batches start b bt_init).
  Proof.
    intros Hge. pose proof (base_pos Hge) as Hbase.
    unfold batch_tasks_body.
    replace ((0 <? n_batches) && (n_batches <=? n_tasks)) with true by lia.
    apply (for_rangeZ_inv (loop_inv n_tasks n_batches start b)); [lia| |].
    - unfold loop_inv; cbn. repeat split; try lia; constructor.
    - intros i st Hi (H1 & H2 & H3 & H4 & H5 & H6 & H7).
      assert (Hmod : 0 <= n_tasks mod n_batches < n_batches) by (apply Z.mod_pos_bound; lia).
      unfold loop_inv.
      destruct (i <? v_rmdr (set_v_i2 (v_i1 st + v_base_batch_size st) st)) eqn:Hlt;
        cbn in Hlt; destruct b; cbn; rewrite ?app_length; cbn [length];
        (repeat split;
         [ assumption | assumption | rewrite ?H1, ?H2, ?H3 in *; lia
         | eapply chain_snoc; [eassumption| reflexivity | reflexivity
                               | cbn; rewrite ?H1; lia | reflexivity ]
         | lia
         | apply Forall_app; split; [assumption|]; constructor; [|constructor];
           unfold size_ok; cbn; rewrite ?H1; lia
         | apply Forall_app; split; [assumption|]; constructor; [|constructor]; reflexivity ]).
  Qed.

  Lemma gen_many :
    n_batches <= n_tasks ->
    let ts := batch_tasks_gen n_tasks n_batches start b in
    chain start (start + n_tasks) ts /\ Z.of_nat (length ts) = n_batches /\
    Forall (size_ok (n_tasks / n_batches)) ts /\ Forall (kind_ok b) ts.
  Proof.
    intros Hge ts. destruct (body_many Hge) as (H1 & H2 & H3 & H4 & H5 & H6 & H7).
    subst ts. unfold batch_tasks_gen. repeat split; try assumption.
    replace (start + n_tasks) with
      (v_i1 (batch_tasks_body n_tasks n_batches start b bt_init)); [assumption|].
    rewrite H3. assert (0 <= n_tasks mod n_batches < n_batches) by (apply Z.mod_pos_bound; lia).
    pose proof (Z.div_mod n_tasks n_batches ltac:(lia)). lia.
  Qed.

  Lemma gen_single :
    1 <= n_tasks -> n_tasks < n_batches ->
    batch_tasks_gen n_tasks n_batches start b =
      [if b then TIdx start (n_tasks + start) start else TArr start (n_tasks + start) start].
  Proof.
    intros H1 Hlt. unfold batch_tasks_gen, batch_tasks_body.
    replace ((0 <? n_batches) && (n_batches <=? n_tasks)) with false by lia.
    destruct b; reflexivity.
  Qed.

  (* ---- the statements used by Props/C16.v ---- *)
  Hypothesis Ht : 1 <= n_tasks.
  Let ts := batch_tasks_gen n_tasks n_batches start b.

  Lemma bt_chain : chain start (start + n_tasks) ts.
  Proof.
    subst ts. destruct (Z_le_gt_dec n_batches n_tasks) as [Hge|Hlt].
    - apply gen_many; assumption.
    - rewrite gen_single by lia. destruct b; cbn; repeat split; lia.
  Qed.

  Lemma bt_count :
    Z.of_nat (length ts) = if n_batches <=? n_tasks then n_batches else 1.
  Proof.
    subst ts. destruct (Z_le_gt_dec n_batches n_tasks) as [Hge|Hlt].
    - replace (n_batches <=? n_tasks) with true by lia. apply gen_many; assumption.
    - replace (n_batches <=? n_tasks) with false by lia. rewrite gen_single by lia. reflexivity.
  Qed.

  Lemma bt_nonempty : ts <> [].
  Proof.
    intros E. pose proof bt_count as H. rewrite E in H. cbn in H.
    destruct (n_batches <=? n_tasks); lia.
  Qed.

  Lemma bt_kind : Forall (kind_ok b) ts.
  Proof.
    subst ts. destruct (Z_le_gt_dec n_batches n_tasks) as [Hge|Hlt].
    - apply gen_many; assumption.
    - rewrite gen_single by lia. constructor; [|constructor]. destruct b; reflexivity.
  Qed.

  (* sizes differ by at most one *)
  Lemma bt_balanced :
    exists base, Forall (size_ok base) ts.
  Proof.
    subst ts. destruct (Z_le_gt_dec n_batches n_tasks) as [Hge|Hlt].
    - exists (n_tasks / n_batches). apply gen_many; assumption.
    - exists n_tasks. rewrite gen_single by lia. constructor; [|constructor].
      unfold size_ok. destruct b; cbn; lia.
  Qed.
End Gen.

(* ---- consequences of [chain] alone (any list of tasks) ---- *)

Lemma chain_le lo hi ts : chain lo hi ts -> lo <= hi.
Proof.
  revert lo. induction ts as [|a r IH]; intros lo; cbn [chain].
  - lia.
  - intros (H1 & H2 & _ & H4). apply IH in H4. lia.
Qed.

Lemma chain_each_nonempty lo hi ts : chain lo hi ts -> Forall (fun t => t_lo t < t_hi t) ts.
Proof.
  revert lo. induction ts as [|a r IH]; intros lo; cbn [chain]; [constructor|].
  intros (H1 & H2 & _ & H4). constructor; [assumption|]. eapply IH; eassumption.
Qed.

Lemma chain_ids lo hi ts : chain lo hi ts -> Forall (fun t => t_id t = t_lo t) ts.
Proof.
  revert lo. induction ts as [|a r IH]; intros lo; cbn [chain]; [constructor|].
  intros (H1 & H2 & H3 & H4). constructor; [assumption|]. eapply IH; eassumption.
Qed.

(* every index of [lo,hi) lies in exactly one task: existence ... *)
Lemma chain_cover lo hi ts x :
  chain lo hi ts -> lo <= x < hi -> exists t, In t ts /\ t_lo t <= x < t_hi t.
Proof.
  revert lo. induction ts as [|a r IH]; intros lo; cbn [chain].
  - lia.
  - intros (H1 & H2 & _ & H4) Hx. destruct (Z_lt_ge_dec x (t_hi a)) as [Hlt|Hge].
    + exists a. split; [left; reflexivity|lia].
    + destruct (IH _ H4 ltac:(lia)) as (t & Hin & Ht). exists t. split; [right; assumption|assumption].
Qed.

(* ... tasks stay inside [lo,hi) and later tasks start after earlier ones end (so: disjoint, ordered) *)
Lemma chain_bounds lo hi ts t : chain lo hi ts -> In t ts -> lo <= t_lo t /\ t_hi t <= hi.
Proof.
  revert lo. induction ts as [|a r IH]; intros lo; cbn [chain In]; [tauto|].
  intros (H1 & H2 & _ & H4) [E|Hin].
  - subst a. pose proof (chain_le _ _ _ H4). lia.
  - destruct (IH _ H4 Hin). lia.
Qed.

Lemma chain_ordered lo hi ts1 t1 ts2 t2 ts3 :
  chain lo hi (ts1 ++ t1 :: ts2 ++ t2 :: ts3) -> t_hi t1 <= t_lo t2.
Proof.
  revert lo. induction ts1 as [|a r IH]; intros lo; cbn [chain app].
  - intros (_ & _ & _ & H4). eapply chain_bounds in H4; [apply H4|].
    apply in_or_app. right. left. reflexivity.
  - intros (_ & _ & _ & H4). eapply IH; eassumption.
Qed.

(* explicit index array: the batches, concatenated in task order, are exactly arr[lo:hi] *)
Lemma firstn_skipn_split {A} (l : list A) (a b : nat) :
  firstn (a + b) l = firstn a l ++ firstn b (skipn a l).
Proof.
  revert l. induction a as [|a IH]; intros l; cbn; [reflexivity|].
  destruct l as [|x l]; cbn; [destruct b; reflexivity|]. rewrite IH. reflexivity.
Qed.

Lemma skipn_skipn' {A} (l : list A) (a b : nat) : skipn a (skipn b l) = skipn (b + a) l.
Proof.
  revert l. induction b as [|b IH]; intros l; cbn; [reflexivity|].
  destruct l as [|x l]; [destruct a; reflexivity|]. apply IH.
Qed.

Lemma chain_concat {A} (arr : list A) lo hi ts :
  0 <= lo -> chain lo hi ts ->
  concat (map (task_rows arr) ts) = pyslice arr lo hi.
Proof.
  revert lo. induction ts as [|a r IH]; intros lo Hlo; cbn [chain map concat].
  - intros ->. unfold pyslice. rewrite Z.sub_diag. reflexivity.
  - intros (H1 & H2 & _ & H4). rewrite (IH (t_hi a)) by (assumption || lia).
    pose proof (chain_le _ _ _ H4) as Hle.
    unfold task_rows, pyslice. rewrite H1.
    replace (Z.to_nat (hi - lo)) with (Z.to_nat (t_hi a - lo) + Z.to_nat (hi - t_hi a))%nat by lia.
    rewrite firstn_skipn_split. f_equal. f_equal. rewrite skipn_skipn'. f_equal. lia.
Qed.
